"""C19 -- the terminal shows a true window of the buffer with the cursor on its character.

Implementation side: the real `vi -v` (built from /repo's working tree), stdin = a key program,
stdout = the terminal byte stream.  The stream is interpreted by the terminal emulator extracted
from coq/TermEmu.v (build/model_term).  For every PREFIX P of a generated key program three runs are
made:  A = P + `:q!`,  B = P + `^L` + `:q!`  (forced full repaint),  T = P + `i@<ESC>:w! out` (twin:
the buffer text and the cursor, marked by `@`).  The state after P is the emulator state at the
longest common prefix of the streams A and B.

Oracle (the property itself, Python rendering of ASCII / tab / a few wide characters):
  (i)   there are top, left such that every text row equals buffer line top+i rendered and clipped
        at [left, left+cols) (past the end: the filler `~`, clipped the same way);
  (ii)  top <= cursor row < top + rows, the terminal cursor is on that row and on a cell of the
        cursor's character;
  (iii) after the forced full repaint (run B) the text rows (characters AND attributes) and the
        cursor are identical to what incremental drawing left (checked when (i), (ii) hold).
Model/code correspondence: the extracted vi_wfix / xleft rules of coq/DrawDefs.v predict the new
top/left from the observed old ones for plain motion commands.
"""
import json, os
import vlib

GROUP = 'term'
TRUSTED = ['Python rendering of lines of printable ASCII, tabs (next multiple of 8) and a fixed set of wide/2-byte characters as the reference of oracle (i)/(ii)',
           'the terminal emulator coq/TermEmu.v is the definition of what the byte stream shows (a real terminal is not in the loop)']

MARK = '@'
WIDE = ['中', 'あ', 'Ａ']          # double-width (in uc.c dwchars and everywhere else)
NARROW2 = ['é', 'ß', 'λ']       # single-width, multi-byte
ATTR_SHIFT = 1 << 21
WFIX = True
SPLIT = True
NQUICK = 260

# --------------------------------------------------------------------------------------------
# rendering reference


def cwid(ch, pos):
    if ch == '\t':
        return 8 - (pos & 7)
    if ch in WIDE:
        return 2
    return 1


def layout(line):
    """[(char, pos, wid)] of a line (without its newline)."""
    out = []
    pos = 0
    for ch in line:
        w = cwid(ch, pos)
        out.append((ch, pos, w))
        pos += w
    return out


def render(line, left, cols):
    """cells (code points, 0 = second half of a wide character) of `line` in the window [left, left+cols)"""
    cells = [32] * cols
    for ch, pos, w in layout(line):
        b = pos - left
        e = pos + w - 1 - left
        if b >= 0 and e < cols:
            if ch == '\t':
                continue
            cells[b] = ord(ch)
            if w == 2:
                cells[b + 1] = 0
    return cells


def row_text(buf, idx):
    if idx < len(buf):
        return buf[idx]
    return '~' if idx > 0 else ''


def window(buf, top, left, h, cols):
    return [render(row_text(buf, top + i), left, cols) for i in range(h)]


def cells_str(row):
    return ''.join(chr(c) if c else '' for c in row).rstrip()


# --------------------------------------------------------------------------------------------
# key programs

ESC = b'\x1b'


def ctl(c):
    return bytes([ord(c) & 0x1f])


class Gen:
    def __init__(self, rng, rows, cols, nlines):
        self.r, self.rows, self.cols, self.h, self.nlines = rng, rows, cols, rows - 1, nlines

    def word(self):
        r = self.r
        n = r.choice([1, 2, 3, 5, 8])
        return ''.join(r.choice('abcdefgxyzEL01.;()') for _ in range(n))

    def text(self, maxlen=None, nl=True):
        """text typed in insert mode (bytes)"""
        r = self.r
        t = r.below(10)
        if t < 4:
            s = self.word()
        elif t < 6:
            s = ' '.join(self.word() for _ in range(r.range(2, 4)))
        elif t < 7:
            s = ''.join(r.choice('abcdefghij') for _ in range(r.choice([self.cols - 1, self.cols, self.cols + 1, self.cols + self.cols // 2 + 1, 2 * self.cols + 3])))
        elif t < 8 and nl:
            s = self.word() + '\n' + self.word()
        elif t < 9 and nl:
            s = '\n'.join(self.word() for _ in range(r.choice([2, 3, self.h, self.h + 1])))
        else:
            s = r.choice(['', 'x', '\tq', 'a\tb', '  in', WIDE[0], 'a' + WIDE[1] + 'b', NARROW2[0] + 'z'])
        return s.encode('utf-8')

    def count(self):
        r = self.r
        if r.chance(3, 5):
            return b''
        return str(r.choice([1, 2, 3, self.h - 1, self.h, self.h + 1, 2 * self.h, self.nlines, 7, 30]) or 1).encode()

    def motion(self):
        r = self.r
        m = r.choice(['h', 'j', 'k', 'l', 'j', 'k', 'w', 'b', 'e', '0', '$', '^', 'G', 'H', 'M', 'L', '+', '-', '\n', 'W', 'B', 'E',
                      '{', '}', '%', 'fa', 'tb', 'Fa', ';', ',', '|', 'nG', '/pat', '?pat', 'n', 'N', "'a", '`a', "''"])
        if m == 'nG':
            return str(r.choice([1, 2, self.h, self.h + 1, self.nlines // 2 + 1, max(1, self.nlines - 1), max(1, self.nlines), self.nlines + 5])).encode() + b'G'
        if m == '|':
            return str(r.choice([1, 2, self.cols - 1, self.cols, self.cols + 1, 2 * self.cols, 3 * self.cols + 1])).encode() + b'|'
        if m in ('/pat', '?pat'):
            return m[0].encode() + r.choice(['a', 'b', 'line', 'x', '3', 'e ', 'zz', '1', 'L']).encode() + b'\n'
        if m == 'l' and r.chance(1, 3):
            return str(r.choice([self.cols - 1, self.cols, self.cols + 1, self.cols // 2])).encode() + b'l'
        if m in ('G', 'H', 'L', 'M', "'a", '`a', "''", '{', '}', '%', ';', ',', 'n', 'N', '^', '0', '$'):
            return m.encode()
        return self.count() + m.encode()

    def scroll(self):
        r = self.r
        k = r.choice(['e', 'y', 'd', 'u', 'f', 'b', 'e', 'y', 'z\n', 'z.', 'z-'])
        if k.startswith('z'):
            c = b'' if r.chance(2, 3) else str(r.choice([1, 2, self.h, self.nlines // 2 + 1, max(self.nlines, 1), self.nlines + 3])).encode()
            return c + k.encode()
        return self.count() + ctl(k)

    def insert(self):
        r = self.r
        c = r.choice(['i', 'a', 'A', 'I', 'o', 'O', 'o', 'O', 'A'])
        t = self.text()
        if r.chance(1, 8) and t:
            t = t + r.choice([b'\x08', b'\x17', b'\x15', b'\x7f']) + r.choice([b'', b'k'])
        pre = b''
        if r.chance(1, 12):
            pre = r.choice([b'2', b'3'])
        return pre + c.encode() + t + ESC

    def change(self):
        r = self.r
        c = r.choice(['cw', 'cc', 'C', 's', 'S', 'c$', 'cb', 'ce', 'cj', 'ck', 'c0', 'cl', '2cw', '3cc', 'cG', 'R'])
        return c.encode() + self.text() + ESC

    def edit(self):
        r = self.r
        e = r.choice(['x', 'X', 'dd', 'dd', 'dw', 'D', 'd$', 'db', 'dj', 'dk', 'dG', 'dH', 'dL', 'd}', 'p', 'P', 'p', 'P', 'yy', 'yw', 'Y', 'yj', 'J', 'J',
                      'rZ', '~', '>>', '<<', '.', '.', 'ma', '"ayy', '"ap', '"aP', 'g~w', 'gUU', 'yG', 'y$', '>j', '<k',
                      'yb', 'y0', 'y^', 'yFa', 'yTe', 'y?a\n', 'yB', 'yh', 'yk', 'y1G'])
        if e in ('x', 'dd', 'J', 'p', 'P', 'yy', '>>', '<<', 'X', '~', 'dw', '.'):
            return self.count() + e.encode()
        return e.encode()

    def undo(self):
        return self.r.choice([b'u', b'u', ctl('r'), b'u' + ctl('r'), b'uu'])

    def ex(self):
        r = self.r
        n = max(self.nlines, 1)
        a = r.choice([1, 2, self.h, n // 2 + 1, n])
        b = a + r.choice([0, 1, 2, self.h])
        c = r.choice([
            ':%d' % a, ':$', ':1', ':%d,%dd' % (a, b), ':s/a/AA/', ':%s/e/EE/g', ':%s/a//g', ':g/a/d', ':g/x/s/x/yyy/', ':%d,%dm0' % (a, b), ':%d,%dm$' % (a, b),
            ':%d,%dt.' % (a, b), ':t.', ':1,$j', ':%d,%dj' % (a, b), ':%d,%dy' % (a, b), ':pu', ':0pu', ':se hll', ':se nohll', ':se hl', ':se nohl', ':se ai', ':se noai',
            ':%d,%d>' % (a, b), ':%d,%d<' % (a, b), ':u', ':rd', ':%dk a' % a, ':foo', ':%d,%dd|foo' % (a, b), ':1,%dp' % b, ':%d=' % a, ':%d,%dp' % (a, a),
            ':$a\nnew1\nnew2\n.', ':%di\nins\n.' % a, ':%d,%dc\nchg\n.' % (a, b), ':v/a/d', ':%d,%dg/./m0' % (a, b),
        ])
        tail = b'\n'
        if c.startswith(':1,') and c.endswith('p') or c.endswith('='):
            tail = b'\n\n'              # answers a possible [enter to continue]
        return c.encode() + tail

    def atom(self, profile):
        r = self.r
        t = r.below(100)
        w = profile
        if t < w[0]:
            return self.motion()
        if t < w[1]:
            return self.scroll()
        if t < w[2]:
            return self.insert()
        if t < w[3]:
            return self.change()
        if t < w[4]:
            return self.edit()
        if t < w[5]:
            return self.undo()
        if t < w[6]:
            return self.ex()
        return ctl('l')


PROFILES = {
    'mixed':   [25, 40, 55, 62, 80, 88, 98],
    'scroll':  [25, 75, 80, 82, 90, 95, 99],
    'edit':    [15, 25, 45, 58, 85, 95, 99],
    'motion':  [70, 85, 90, 92, 96, 98, 99],
}


def gen_lines(rng, n, cols, style):
    out = []
    for i in range(n):
        t = rng.below(12)
        if style == 'plain' or t < 5:
            s = 'line %d' % (i + 1)
            if rng.chance(1, 3):
                s += ' ' + ''.join(rng.choice('abcdefgh ') for _ in range(rng.range(0, max(1, cols - 6))))
        elif t < 6:
            s = ''
        elif t < 8:
            s = ''.join(rng.choice('abcdefghijklmnopqrstuvwxyz (){}') for _ in range(rng.choice([cols - 1, cols, cols + 1, cols + cols // 2, 2 * cols, 2 * cols + 1, 3 * cols + 2])))
        elif t < 9:
            s = rng.choice(['\tindented', 'a\tb\tc', '\t\tdeep a', 'xx\ty', '    sp'])
        elif t < 10 and style == 'wide':
            s = ''.join(rng.choice(['a', 'b', ' ', WIDE[0], WIDE[1], WIDE[2], NARROW2[0], NARROW2[1]]) for _ in range(rng.choice([3, cols // 2, cols, cols + 3])))
        else:
            s = ' '.join(rng.choice(['a', 'bb', 'cat', 'x1', 'e.', 'L(', ')']) for _ in range(rng.range(1, 6)))
        out.append(s.rstrip(' ') if rng.chance(1, 2) else s)
    return out


def gen_case(rng, quick, k):
    rows = rng.choice([2, 2, 3, 4, 5, 6, 8, 10, 24])
    cols = rng.choice([2, 3, 5, 8, 10, 20, 20, 40, 80])
    if k % 7 == 0:
        rows, cols = rng.choice([(2, 2), (24, 80), (2, 80), (24, 2), (3, 3), (5, 20)])
    h = rows - 1
    n = rng.choice([0, 0, 1, 2, max(h - 1, 1), h, h + 1, 2 * h, 2 * h + 3, 3 * h + 1, 5 * h])
    n = min(n, 70)
    style = rng.choice(['plain', 'mixed', 'mixed', 'wide'])
    lines = gen_lines(rng, n, cols, style)
    prof = rng.choice(['mixed', 'mixed', 'scroll', 'edit', 'motion'])
    g = Gen(rng, rows, cols, n)
    natoms = rng.range(3, 8 if quick else 14)
    atoms = [g.atom(PROFILES[prof]) for _ in range(natoms)]
    if SPLIT and k % 9 == 4:
        # split windows: ^Ws first (upper window active), then motions and scrolls only; odd heights included
        rows = rng.choice([6, 7, 8, 9, 11, 24, 25])
        g = Gen(rng, rows // 2, cols, n)
        atoms = [b'\x17s'] + [g.atom([55, 100, 100, 100, 100, 100, 100]) for _ in range(natoms)]
        prof = 'split'
    opts = []
    if rng.chance(1, 3):
        opts.append('se hll')
    if rng.chance(1, 6):
        opts.append('se nohl')
    if rng.chance(1, 8):
        opts.append('se noai')
    name = rng.choice(['f', 'f', 'f.c', 'f.sh'])
    return {'rows': rows, 'cols': cols, 'lines': lines, 'atoms': [a.hex() for a in atoms], 'exinit': '|'.join(opts), 'name': name, 'profile': prof}


# --------------------------------------------------------------------------------------------
# running


def file_bytes(case):
    return ''.join(l + '\n' for l in case['lines']).encode('utf-8')


def run_keys(exe, case, keys, readback=(), timeout=10):
    env = {'EXINIT': case.get('exinit', '')}
    name = case.get('name', 'f')
    r = vlib.run_vi(exe, keys, files={name: file_bytes(case)}, args=[name], readback=readback,
                    rows=case['rows'], cols=case['cols'], timeout=timeout, env=env)
    if r.timed_out or r.crashed():
        r2 = vlib.run_vi(exe, keys, files={name: file_bytes(case)}, args=[name], readback=readback,
                         rows=case['rows'], cols=case['cols'], timeout=3 * timeout, env=env)
        return r2
    return r


QUIT = b':q!\n'


def run_prefix(exe, case, i):
    """the three runs for the prefix of i atoms"""
    p = b''.join(bytes.fromhex(a) for a in case['atoms'][:i])
    a = run_keys(exe, case, p + QUIT)
    b = run_keys(exe, case, p + b'\x0c' + QUIT)
    t = run_keys(exe, case, p + b'i' + MARK.encode() + ESC + b':w! out\n' + QUIT, readback=['out'])
    return a, b, t


def cuts(sa, sb, rows):
    """stream offsets of 'after the prefix' in run A and 'after the forced repaint' in run B: A = out(P) + out(:q!),
    B = out(P) + out(^L) + out(:q!); out(:q!) starts by addressing the message row and is the same in both"""
    cut = len(os.path.commonprefix([sa, sb]))
    e = sa.rfind(b'\x1b', 0, cut)
    if e >= 0 and not any(0x40 <= x <= 0x7e for x in sa[e + 2:cut]):
        cut = e                                     # the common prefix ended inside an escape sequence
    tail = sa[cut:]
    if tail and sb.endswith(tail):
        return cut, len(sb) - len(tail)
    k = sb.rfind(b'\x1b[%d;1H\x1b[K\r' % rows)
    return cut, (k if k >= 0 else len(sb))


def parse_snap(s):
    head, _, cells = s.partition('|')
    err, r, c, top, bot = [int(x) for x in head.split()]
    rows = [[int(v) for v in row.split(',')] for row in cells.split(';')]
    return {'err': err, 'r': r, 'c': c, 'top': top, 'bot': bot,
            'cp': [[v % ATTR_SHIFT for v in row] for row in rows],
            'at': [[v // ATTR_SHIFT for v in row] for row in rows]}


def emulate(model, reqs):
    """reqs: [(rows, cols, stream bytes, [cuts])] -> [[snapshots]]"""
    lines = ['run %d %d %s %s' % (r, c, vlib.hx(s), ','.join(str(x) for x in cuts)) for r, c, s, cuts in reqs]
    if not lines:
        return []
    nchunk = min(16, max(1, len(lines) // 8))
    chunks = [lines[i::nchunk] for i in range(nchunk)]

    def one(ch):
        rc, out, err = vlib.run_lines(model, ch, timeout=900)
        if rc != 0 or len(out) != len(ch):
            raise RuntimeError('model_term failed: rc=%s %s' % (rc, err[-500:]))
        return out
    outs = vlib.pmap(one, chunks)
    res = [None] * len(lines)
    for k, out in enumerate(outs):
        for j, o in enumerate(out):
            res[k + j * nchunk] = [parse_snap(x) for x in o.split('#')]
    return res


def twin_state(t):
    """(buffer lines, xrow, xoff) from the twin run, or None"""
    data = t.files.get('out') if t.files else None
    if data is None:
        return None
    try:
        s = data.decode('utf-8')
    except UnicodeDecodeError:
        return None
    if s.count(MARK) != 1:
        return None
    lines = s.split('\n')
    if lines and lines[-1] == '':
        lines.pop()
    for i, l in enumerate(lines):
        j = l.find(MARK)
        if j >= 0:
            lines[i] = l[:j] + l[j + 1:]
            return lines, i, j
    return None


# --------------------------------------------------------------------------------------------
# the oracle


def renderable(buf):
    for l in buf:
        for ch in l:
            if ch == '\t' or ch in WIDE or ch in NARROW2:
                continue
            if not (32 <= ord(ch) < 127):
                return False
    return True


def cursor_cells(buf, xrow, xoff):
    line = buf[xrow] if xrow < len(buf) else ''
    lay = layout(line)
    if not lay:
        return 0, 1
    if xoff >= len(lay):
        xoff = len(lay) - 1
    return lay[xoff][1], lay[xoff][2]


def check_at(st, buf, xrow, xoff, top, left, h, cols):
    """None if (i) and (ii) hold with this top/left, else which clause fails"""
    if window(buf, top, left, h, cols) != st['cp'][:h]:
        return 'rows'
    if not (top <= xrow < top + h):
        return 'cursor line outside the window'
    if st['r'] != xrow - top:
        return 'terminal cursor on another row than the cursor line'
    pos, wid = cursor_cells(buf, xrow, xoff)
    if not (pos <= st['c'] + left < pos + wid):
        return 'terminal cursor not on the cell of the cursor character'
    return None


def explain(st, buf, xrow, xoff, h, cols):
    """(verdict, top, left): verdict None = property holds for some top/left"""
    pos, wid = cursor_cells(buf, xrow, xoff)
    tops = []
    if xrow - st['r'] >= 0:
        tops.append(xrow - st['r'])
    lefts = [0]
    for c in (pos - st['c'], pos + wid - 1 - st['c']):
        if c > 0 and c not in lefts:
            lefts.append(c)
    best = None
    for top in tops:
        for left in lefts:
            v = check_at(st, buf, xrow, xoff, top, left, h, cols)
            if v is None:
                return None, top, left
            if v != 'rows' and best is None:
                best = (v, top, left)
    # exhaustive search: is there any window at all?
    maxw = max([0] + [sum(w for _, _, w in layout(l)) for l in buf]) + 2
    maxw = max(maxw, st['c'] + pos + wid + cols)
    matches = []
    for left in range(0, maxw + 1):
        rend = {}
        for top in range(0, max(len(buf), 1)):
            ok = True
            for i in range(h):
                t = row_text(buf, top + i)
                if t not in rend:
                    rend[t] = render(t, left, cols)
                if rend[t] != st['cp'][i]:
                    ok = False
                    break
            if ok:
                v = check_at(st, buf, xrow, xoff, top, left, h, cols)
                if v is None:
                    return None, top, left
                if len(matches) < 200:
                    matches.append((top, left, v))
    st['matches'] = matches
    if matches:
        # prefer the explanation that gets furthest
        order = ['terminal cursor not on the cell of the cursor character', 'terminal cursor on another row than the cursor line', 'cursor line outside the window']
        matches.sort(key=lambda m: order.index(m[2]))
        return matches[0][2], matches[0][0], matches[0][1]
    return 'rows', None, None


STICKY = (b'j', b'k', b'\x05', b'\x19')


def is_sticky_atom(a):
    """commands after which the steering column xcol is not the cursor's own column: j k ^E ^Y keep the remembered
    column, n| sets the requested one"""
    b = a.lstrip(b'0123456789')
    return b in STICKY or b == b'|'


def eval_prefix(exe, model, case, i):
    """Evaluate the property after the first i atoms.  Returns a dict:
       status: 'ok' | 'skip' | 'fail';  what, kf, observed, expected, top, left."""
    a, b, t = run_prefix(exe, case, i)
    rows, cols = case['rows'], case['cols']
    return judge(exe, model, case, i, a, b, t, None)


def lower_window_ok(rows_cp, buf, cols):
    """is the list of rows a window of buf for some top/left (no cursor involved)?"""
    hh = len(rows_cp)
    maxw = max([0] + [sum(w for _, _, w in layout(l)) for l in buf]) + 2
    for left in range(0, maxw + 1):
        for top in range(0, max(len(buf), 1)):
            if window(buf, top, left, hh, cols) == rows_cp:
                return True
    return False


def judge(exe, model, case, i, a, b, t, snaps):
    rows, cols = case['rows'], case['cols']
    h = rows - 1
    split = i >= 1 and case['atoms'][0] == '1773'
    if split:
        half = rows // 2            # vi_switch: upper window = rows [0, half): half-1 text rows + its message row
        h = half - 1
    for r in (a, b, t):
        if r.timed_out or r.rc != 0:
            return {'status': 'skip', 'what': 'run did not finish (rc=%s timeout=%s)' % (r.rc, r.timed_out)}
    tw = twin_state(t)
    if tw is None:
        return {'status': 'skip', 'what': 'twin run gave no unique cursor marker'}
    buf, xrow, xoff = tw
    if snaps is None:
        cut, cutb = cuts(a.out, b.out, rows)
        sa, sb = emulate(model, [(rows, cols, a.out, [cut]), (rows, cols, b.out, [cutb])])
        snaps = (sa[0], sb[0])
    st, st2 = snaps
    out = {'status': 'ok', 'buf': buf, 'xrow': xrow, 'xoff': xoff, 'st': st}
    if st['err'] or st2['err']:
        out.update(status='fail', what='the stream contains a sequence the terminal model does not know, or text past the right margin',
                   observed={'errors': st['err'] + st2['err']}, expected={'errors': 0})
        return out
    if not renderable(buf):
        # reference rendering not trusted for this text: full-repaint comparison only
        if st['cp'][:h] != st2['cp'][:h]:
            out.update(status='fail', what='text rows differ from what a forced full repaint draws (stale or missing row)',
                       observed=[cells_str(r) for r in st['cp'][:h]], expected=[cells_str(r) for r in st2['cp'][:h]])
        return out
    v, top, left = explain(st, buf, xrow, xoff, h, cols)
    out['top'], out['left'] = top, left
    if v is None and split:
        # the lower window: rows [half, rows-1) show a window of the (same, unchanged) buffer; its message row is the last row
        low, low2 = st['cp'][half:rows - 1], st2['cp'][half:rows - 1]
        if not lower_window_ok(low, buf, cols):
            out.update(status='fail', what='split windows: the rows of the lower window are not a window of the buffer lines',
                       observed=[cells_str(r) for r in st['cp'][:rows]], expected='upper window: %d text rows + message row, lower window: %d text rows + message row' % (half - 1, rows - half - 1))
            return out
        if low != low2:
            out.update(status='fail', what='split windows: a forced full repaint (^L) changes the rows of the lower window',
                       observed=[cells_str(r) for r in low], expected=[cells_str(r) for r in low2])
            return out
    if v is None:
        # (iii) a forced full repaint draws the same window with the same attributes; it may only choose another window
        # (the steering column is recomputed from the cursor) if that one satisfies (i) and (ii) as well
        if check_at(st2, buf, xrow, xoff, top, left, h, cols) is None:
            # attributes are compared on the non-blank cells (how much of a blank, clipped row is highlighted depends on left)
            bad = [k for k in range(h) if any(a != b2 and c != 32 for a, b2, c in zip(st['at'][k], st2['at'][k], st['cp'][k]))]
            if bad:
                out.update(status='fail', what='row attributes (highlighting) differ from what a forced full repaint draws: stale row(s) %s' % bad,
                           observed={'rows': bad}, expected={'rows': []})
        else:
            v2, top2, left2 = explain(st2, buf, xrow, xoff, h, cols)
            if v2 is not None:
                out.update(status='fail', what='after a forced full repaint (^L): ' + v2,
                           observed={'rows': [cells_str(r) for r in st2['cp'][:h]], 'cursor': [st2['r'], st2['c']]},
                           expected={'rows': [cells_str(r) for r in st['cp'][:h]], 'cursor': [st['r'], st['c']]})
            else:
                out['repaint_moved_window'] = True
        return out
    # the property fails here: describe, then classify
    if v == 'rows':
        what = 'the text rows are not a window of the buffer lines (no top/left explains them)'
        exp_top = max(0, xrow - st['r'])
        expected = [cells_str(r) for r in window(buf, exp_top, 0, h, cols)]
    else:
        what = v
        expected = {'cursor_line': xrow, 'cursor_char_cells': list(cursor_cells(buf, xrow, xoff)), 'top': top, 'left': left}
    out.update(status='fail', what=what, observed={'rows': [cells_str(r) for r in st['cp'][:h]], 'cursor': [st['r'], st['c']]}, expected=expected)
    return out


# --------------------------------------------------------------------------------------------


def keys_repr(case, i=None):
    atoms = case['atoms'] if i is None else case['atoms'][:i]
    return [bytes.fromhex(a).decode('latin-1').encode('unicode_escape').decode() for a in atoms]


def shrink_case(exe, model, case, i, what, kf):
    """delta-debug the atoms (then the buffer lines) keeping the same failure class at the final state"""
    base = dict(case)
    base['atoms'] = case['atoms'][:i]

    def fails_atoms(atoms):
        c = dict(base)
        c['atoms'] = atoms
        r = eval_prefix(exe, model, c, len(atoms))
        return r['status'] == 'fail' and r.get('kf') == kf and r['what'].split(':')[0] == what.split(':')[0]
    try:
        atoms = vlib.shrink(base['atoms'], fails_atoms, max_steps=80)
        if atoms and fails_atoms(atoms):
            base['atoms'] = atoms

        def fails_lines(lines):
            c = dict(base)
            c['lines'] = lines
            r = eval_prefix(exe, model, c, len(c['atoms']))
            return r['status'] == 'fail' and r.get('kf') == kf and r['what'].split(':')[0] == what.split(':')[0]
        if len(base['lines']) > 1:
            lines = vlib.shrink(base['lines'], fails_lines, max_steps=60)
            if lines and fails_lines(lines):
                base['lines'] = lines
    except Exception:
        pass
    return base


def report(res, exe, model, case, i, r):
    kf = r.get('kf')
    small = shrink_case(exe, model, case, i, r['what'], kf) if kf is None else dict(case, atoms=case['atoms'][:i])
    r2 = eval_prefix(exe, model, small, len(small['atoms']))
    if r2['status'] != 'fail':
        small, r2 = dict(case, atoms=case['atoms'][:i]), r
    v = {'what': r2['what'],
         'input': {'case': small, 'keys': keys_repr(small), 'window': '%dx%d' % (small['rows'], small['cols']),
                   'replay': 'LINES=%d COLUMNS=%d EXINIT=%r vi -v %s < keys (file = lines joined by newline)' % (small['rows'], small['cols'], small.get('exinit', ''), small.get('name', 'f'))},
         'expected': r2.get('expected'), 'observed': r2.get('observed'),
         'buffer': r2.get('buf'), 'cursor': [r2.get('xrow'), r2.get('xoff')]}
    return res.violation(v, kf=kf)


def corpus_cases():
    d = os.path.join(vlib.VERIF, 'corpus')
    out = []
    if os.path.isdir(d):
        for fn in sorted(os.listdir(d)):
            if fn.startswith('C19-') and fn.endswith('.json'):
                c = json.load(open(os.path.join(d, fn)))
                c['_corpus'] = fn
                out.append(c)
    return out


def run(ctx):
    res = ctx.res
    rng = ctx.rng
    exe = vlib.build_vi()
    model = ctx.model('term')
    if not model:
        return
    res.rule = ('one evaluation = one (key program prefix, window size, buffer) state: emulator state of the real stream vs the buffer/cursor of the twin run, '
                'plus the forced-repaint comparison; non-trivial = the prefix ends in a scroll, an edit, an undo/redo, an ex command, an insert, or the window is '
                'not at top 0 / left 0; distinct = distinct (window, buffer, keys)')
    cases = []
    if ctx.replay:
        rp = json.load(open(ctx.replay))
        c = rp.get('input', {}).get('case')
        if c:
            cases.append(c)
    else:
        cases += corpus_cases()
        n = NQUICK if ctx.quick else 4000
        for k in range(n):
            cases.append(gen_case(rng.fork('case%d' % k), ctx.quick, k))
    # all runs of all prefixes
    jobs = [(ci, i) for ci, c in enumerate(cases) for i in range(len(c['atoms']) + 1)]
    runs = vlib.pmap(lambda j: run_prefix(exe, cases[j[0]], j[1]), jobs)
    reqs = []
    idx = []
    for (ci, i), (a, b, t) in zip(jobs, runs):
        c = cases[ci]
        if a.timed_out or b.timed_out or a.rc != 0 or b.rc != 0:
            idx.append(None)
            continue
        cut, cutb = cuts(a.out, b.out, c['rows'])
        idx.append(len(reqs))
        reqs.append((c['rows'], c['cols'], a.out, [cut]))
        reqs.append((c['rows'], c['cols'], b.out, [cutb]))
    snaps = emulate(model, reqs)
    failed_cases = set()
    results = {}
    for (ci, i), (a, b, t), k in zip(jobs, runs, idx):
        c = cases[ci]
        res.evaluations += 1
        if k is None:
            r = {'status': 'skip', 'what': 'run did not finish'}
        else:
            r = judge(exe, model, c, i, a, b, t, (snaps[k][0], snaps[k + 1][0]))
        results[(ci, i)] = r
        last = bytes.fromhex(c['atoms'][i - 1]) if i else b''
        res.count('window %dx%d' % (c['rows'], c['cols']) if (c['rows'], c['cols']) in ((2, 2), (24, 80)) else 'window other')
        res.count('buffer ' + ('empty' if not c['lines'] else 'shorter' if len(c['lines']) < c['rows'] - 1 else 'longer-or-equal'))
        if r['status'] == 'skip':
            res.count('skipped: ' + r['what'][:40])
            continue
        if i and (r.get('top') or r.get('left') or not is_plain_motion(last)):
            res.nontriv((c['rows'], c['cols'], tuple(c['lines']), tuple(c['atoms'][:i])))
        if r.get('left'):
            res.count('states with left > 0')
        if r.get('repaint_moved_window'):
            res.count('forced repaint chose another (valid) window')
        if r.get('top'):
            res.count('states with top > 0')
        if r['status'] == 'fail' and ci not in failed_cases:
            failed_cases.add(ci)        # first failing prefix of a program only
            report(res, exe, model, c, i, r)
    for (ci, i) in list(results)[:400:67]:
        r = results[(ci, i)]
        res.sample({'window': '%dx%d' % (cases[ci]['rows'], cases[ci]['cols']), 'keys': keys_repr(cases[ci], i), 'status': r['status'],
                    'top': r.get('top'), 'left': r.get('left')})
    res.extra['programs'] = len(cases)
    res.extra['states'] = len(jobs)
    if WFIX:
        wfix_correspondence(ctx, model, cases, results)


def is_plain_motion(a):
    b = a.lstrip(b'0123456789')
    return b[:1] in (b'h', b'j', b'k', b'l', b'w', b'b', b'e', b'0', b'$', b'^', b'G', b'+', b'-', b'\n', b'W', b'B', b'E', b'|') and len(b) == 1


def wfix_correspondence(ctx, model, cases, results):
    """model vs code: for a plain motion the new top/left follow from the old ones by vi_wfix / the xleft rule of coq/DrawDefs.v"""
    res = ctx.res
    lines = []
    meta = []
    for (ci, i), r in results.items():
        if i == 0 or r['status'] != 'ok' or r.get('top') is None:
            continue
        p = results.get((ci, i - 1))
        if not p or p['status'] != 'ok' or p.get('top') is None:
            continue
        c = cases[ci]
        last = bytes.fromhex(c['atoms'][i - 1])
        if not is_plain_motion(last):
            continue
        h, cols = c['rows'] - 1, c['cols']
        # the found top/left must be the only explanation on both sides (blank screens are ambiguous)
        if not unique_window(p, h, cols) or not unique_window(r, h, cols):
            continue
        pos, wid = cursor_cells(r['buf'], r['xrow'], r['xoff'])
        lines.append('wfix %d %d %d %d %d %d %d' % (h, cols, p['top'], p['left'], r['xrow'], len(r['buf']), pos))
        meta.append((ci, i, r))
    if not lines:
        return
    rc, out, err = vlib.run_lines(model, lines, timeout=300)
    if rc != 0 or len(out) != len(lines):
        res.disagree({'what': 'model_term wfix requests failed', 'stderr': err[-500:]})
        return
    for (ci, i, r), o, l in zip(meta, out, lines):
        res.count('vi_wfix/xleft correspondence cases')
        want = '%d %d' % (r['top'], r['left'])
        if o != want:
            res.disagree({'what': 'new top/left after a motion differ from the vi_wfix / xleft model', 'input': {'case': cases[ci], 'keys': keys_repr(cases[ci], i), 'request': l},
                          'implementation': want, 'model': o})


def unique_window(r, h, cols):
    buf, st = r['buf'], r['st']
    n = 0
    for left in {0, r['left'], r['left'] + 1, max(0, r['left'] - 1)}:
        for top in range(0, max(len(buf), 1)):
            if window(buf, top, left, h, cols) == st['cp'][:h]:
                n += 1
    return n == 1
