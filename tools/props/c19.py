"""C19 -- the terminal shows a true window of the buffer with the cursor on its character.

Implementation side: the real `vi -v` (built from /repo's working tree), stdin = a key program,
stdout = the terminal byte stream.  The stream is interpreted by the terminal emulator extracted
from coq/TermEmu.v (build/model_term).  For every PREFIX P of a generated key program three runs are
made:  A = P + `:q!`,  B = P + `^L` + `:q!`  (forced full repaint),  T = P + `i@<ESC>:w! out` (twin:
the buffer text and the cursor, marked by `@`).  The state after P is the emulator state at the
longest common prefix of the streams A and B.

Oracle (the property itself, Python rendering of ASCII / tab / a few wide characters):
  (i)   there are top, left such that every text row equals buffer line top+i rendered and clipped
        at [left, left+cols) (past the end: the filler `~`, clipped the same way);
  (ii)  top <= cursor row < top + rows, the terminal cursor is on that row and on a cell of the
        cursor's character;
  (iii) after the forced full repaint (run B) the text rows (characters AND attributes) and the
        cursor are identical to what incremental drawing left (checked when (i), (ii) hold).
Model/code correspondence: the extracted vi_wfix / xleft rules of coq/DrawDefs.v predict the new
top/left from the observed old ones for plain motion commands.

Probe points.  ('cmd', i): after the first i commands (runs A, B, T above).  ('ins', i, off, k): INSIDE the insert
started by command i, after `off` bytes of it (k = newlines typed so far): run A = P + ESC + `:q!`, run T = P + `@` +
ESC + `:w! out`; the marker is typed in the pending insert, so the twin buffer is exactly the text the screen should
show now (lines already typed, auto-indent + pref + typed text + post on the current line).  In-insert oracle: every
row of the window is the rendering of line top+i of that text; the rows outside the lines typed in this insert share
one `left`, the rows typed in this insert (led_printparts draws them alone) may each have their own; the terminal
cursor is on the row of the current line, on the cell where the next character goes (clamped to the last column when
the typed text ends exactly at the right margin).
Split windows (^Ws ... ^Wj ^Wk ^Wx ^Wo ^Wc): the geometry is vi_switch's (upper = rows/2 - 1 text rows).  The ACTIVE
window must satisfy (i)-(iii).  The INACTIVE one is repainted by the tail of vi() only when mod has VC_ALT (`:` command
lines, ^L, ^Ws, ^Wj, ^Wk, ^Wx): after such a command its rows must be a window of the current buffer; after any other
command (and inside an insert) they must be exactly what they were before it (drawing never spills into the other half).
"""
import json, os
import vlib

GROUP = 'term'
TRUSTED = ['Python rendering of lines of printable ASCII, tabs (next multiple of 8), a fixed set of wide/2-byte characters and control characters (C0/C1 -> U+FFFD, DEL -> one blank cell) as the reference of oracle (i)/(ii)',
           'the terminal emulator coq/TermEmu.v is the definition of what the byte stream shows (a real terminal is not in the loop)']

MARK = '@'
WIDE = ['中', 'あ', 'Ａ']          # double-width (in uc.c dwchars and everywhere else)
NARROW2 = ['é', 'ß', 'λ']       # single-width, multi-byte
ATTR_SHIFT = 1 << 21
WFIX = True
SPLIT = True
NQUICK = 170
NAIMED = 108
NSPLIT = 36
NSPLITEX = 20
NRTL = 24

# --------------------------------------------------------------------------------------------
# rendering reference


# control characters in buffer lines (file contents only; never typed): ren.c / uc.c / led.c draw
#   0x01..0x1f (not tab) and the C1 controls U+0080..U+009F  -> uc_isbell -> the placeholder U+FFFD, one cell (ren_placeholder)
#   0x7f (DEL)                                              -> no placeholder, uc_wid = 1, !uc_isprint -> one BLANK cell
# (coq/RenDefs.v: ren_placeholder / bell_glyph / ren_cwid, coq/UcDefs.v: uc_isprint say the same)
BELL_GLYPH = 0xfffd
CTL_BELL = [chr(c) for c in range(1, 32) if c not in (9, 10)] + ['\x85', '\x9b']
CTL_DEL = '\x7f'


def is_ctl(ch):
    return ch == CTL_DEL or ch in CTL_BELL


def cell_of(ch):
    """the code point the terminal shows in the (first) cell of character ch"""
    if ch == CTL_DEL:
        return 32
    if ch in CTL_BELL:
        return BELL_GLYPH
    return ord(ch)


def cwid(ch, pos):
    if ch == '\t':
        return 8 - (pos & 7)
    if ch in WIDE:
        return 2
    return 1


# ---- base direction and visual order (dir.c / conf.h, ren.c ren_position, led.c led_pos) for the alphabet of the generators:
# printable ASCII without backslash, `$`, backquote and apostrophe (the direction marks that need them never match), tabs,
# the wide / two-byte characters above, the Arabic letters R2L (conf.h CR2L; base direction -1) and the Hebrew letters
# HEBREW (in no table of conf.h: base direction of the `td` default).  REF.td is the text direction option (`td`, xtd) the
# state is judged under: a property of the editor state like the buffer and the cursor -- set by EXINIT / `:se td=` / z> z<
# and by nothing else (a prompt, answered or cancelled, leaves it alone).
R2L = 'ابتثجحخدذرزسشصضطظعغفقكلمنهوي'
HEBREW = 'אבגדהוזחטיכלמנסעפצקרשת'
CNEUT = '-!"#$%&\'()*+,./:;<=>?@^_`{|}~ '
RE_MARK_LR = __import__('re').compile('[%s][%s%s]*[%s]' % (R2L, __import__('re').escape(CNEUT), R2L, R2L))      # ctx +1: a run of R2L text, shown right-to-left
RE_MARK_RL = __import__('re').compile('[a-zA-Z0-9_][^%s\\\\`$\']*[a-zA-Z0-9_]' % R2L)                      # ctx -1: a run of Latin text, shown left-to-right
XLIM = 256


class Ref:
    td = 0          # xtd
    order = 1       # xorder (never changed by the generators)


REF = Ref()


def norm_cp(cp):
    """letter shaping (uc_shape: one presentation form per Arabic letter, C16/C17's subject) is undone before cells are compared"""
    if 0xfb50 <= cp <= 0xfefc:
        d = __import__('unicodedata').normalize('NFKC', chr(cp))
        if len(d) == 1:
            return ord(d)
    return cp


def dir_context(line):
    """dir.c dir_context: the base direction of a line under REF.td"""
    td = REF.td
    if td > 1:
        return 1
    if td < -1:
        return -1
    if td == 0 and (not line or ord(line[0]) < 0x80):
        return 1
    if line and line[0] in R2L:
        return -1
    if line and (line[0].isascii() and (line[0].isalnum() or line[0] == '_')):
        return 1
    return -1 if td < 0 else 1


def visual_order(line):
    """ord[i] = the visual index of character i (dir.c dir_reorder / dir_fix); identity when ren_position takes its fast path"""
    n = len(line)
    order = list(range(n))
    if n > XLIM or not (REF.order == 2 or (REF.order == 1 and any(ord(ch) >= 0x80 for ch in line))):
        return order
    ctx = dir_context(line)
    rx = RE_MARK_RL if ctx < 0 else RE_MARK_LR
    beg = 0
    while beg < n:
        m = rx.search(line, beg)
        if not m:
            break
        b, e = m.span()
        if ctx < 0:
            order[b:e] = order[b:e][::-1]           # dir_reverse(ord, r_beg, r_end) in a right-to-left context
        else:
            order[b:e] = order[b:e][::-1]           # the mark's own direction is -1: dir_reverse(ord, c_beg, c_end)
        beg = e
    return order


def layout(line):
    """[(char, pos, wid)] of a line (without its newline), in buffer order; pos = ren_position (visual order under REF.td)."""
    n = len(line)
    order = visual_order(line)
    if order == list(range(n)):
        out = []
        pos = 0
        for ch in line:
            w = cwid(ch, pos)
            out.append((ch, pos, w))
            pos += w
        return out
    off = [0] * n
    for i, v in enumerate(order):
        off[v] = i
    out = [None] * n
    pos = 0
    for v in range(n):
        i = off[v]
        w = cwid(line[i], pos)
        out[i] = (line[i], pos, w)
        pos += w
    return out


def render(line, left, cols):
    """cells (code points, 0 = second half of a wide character) of `line` in the window [left, left+cols); a line whose
    base direction is -1 is drawn from the right edge (led_pos)"""
    cells = [32] * cols
    rtl = dir_context(line) < 0
    for ch, pos, w in layout(line):
        if rtl:
            b = left + cols - (pos + w - 1) - 1
            e = left + cols - pos - 1
        else:
            b = pos - left
            e = pos + w - 1 - left
        if b >= 0 and e < cols:
            if ch == '\t':
                continue
            cells[b] = cell_of(ch)
            if w == 2:
                cells[b + 1] = 0
    return cells


def row_text(buf, idx):
    if idx < len(buf):
        return buf[idx]
    return '~' if idx > 0 else ''


def window(buf, top, left, h, cols):
    return [render(row_text(buf, top + i), left, cols) for i in range(h)]


def cells_str(row):
    return ''.join(chr(c) if c else '' for c in row).rstrip()


def ctl_lines(rng, lines, cols, every=2):
    """plant control characters (DEL half of the time) into about one line in `every`"""
    out = []
    for l in lines:
        if rng.chance(1, every):
            for _ in range(rng.choice([1, 1, 2, 3])):
                ch = CTL_DEL if rng.chance(1, 2) else rng.choice(CTL_BELL + ['\x1b', '\r', '\x01', '\x08'])
                at = rng.choice([0, 1, 2, len(l) // 2, max(0, len(l) - 1), len(l), min(len(l), max(0, cols - 1)), min(len(l), cols), min(len(l), cols + cols // 2)])
                at = min(at, len(l))
                l = l[:at] + ch + l[at:]
        out.append(l)
    return out


# --------------------------------------------------------------------------------------------
# key programs

ESC = b'\x1b'


def ctl(c):
    return bytes([ord(c) & 0x1f])


class Gen:
    def __init__(self, rng, rows, cols, nlines):
        self.r, self.rows, self.cols, self.h, self.nlines = rng, rows, cols, rows - 1, nlines

    def word(self):
        r = self.r
        n = r.choice([1, 2, 3, 5, 8])
        return ''.join(r.choice('abcdefgxyzEL01.;()') for _ in range(n))

    def text(self, maxlen=None, nl=True):
        """text typed in insert mode (bytes)"""
        r = self.r
        t = r.below(10)
        if t < 4:
            s = self.word()
        elif t < 6:
            s = ' '.join(self.word() for _ in range(r.range(2, 4)))
        elif t < 7:
            s = ''.join(r.choice('abcdefghij') for _ in range(r.choice([self.cols - 1, self.cols, self.cols + 1, self.cols + self.cols // 2 + 1, 2 * self.cols + 3])))
        elif t < 8 and nl:
            s = self.word() + '\n' + self.word()
        elif t < 9 and nl:
            s = '\n'.join(self.word() for _ in range(r.choice([2, 3, self.h, self.h + 1])))
        else:
            s = r.choice(['', 'x', '\tq', 'a\tb', '  in', WIDE[0], 'a' + WIDE[1] + 'b', NARROW2[0] + 'z'])
        return s.encode('utf-8')

    def count(self):
        r = self.r
        if r.chance(3, 5):
            return b''
        return str(r.choice([1, 2, 3, self.h - 1, self.h, self.h + 1, 2 * self.h, self.nlines, 7, 30]) or 1).encode()

    def motion(self):
        r = self.r
        m = r.choice(['h', 'j', 'k', 'l', 'j', 'k', 'w', 'b', 'e', '0', '$', '^', 'G', 'H', 'M', 'L', '+', '-', '\n', 'W', 'B', 'E',
                      '{', '}', '%', 'fa', 'tb', 'Fa', ';', ',', '|', 'nG', '/pat', '?pat', 'n', 'N', "'a", '`a', "''"])
        if m == 'nG':
            return str(r.choice([1, 2, self.h, self.h + 1, self.nlines // 2 + 1, max(1, self.nlines - 1), max(1, self.nlines), self.nlines + 5])).encode() + b'G'
        if m == '|':
            return str(r.choice([1, 2, self.cols - 1, self.cols, self.cols + 1, 2 * self.cols, 3 * self.cols + 1])).encode() + b'|'
        if m in ('/pat', '?pat'):
            return m[0].encode() + r.choice(['a', 'b', 'line', 'x', '3', 'e ', 'zz', '1', 'L']).encode() + b'\n'
        if m == 'l' and r.chance(1, 3):
            return str(r.choice([self.cols - 1, self.cols, self.cols + 1, self.cols // 2])).encode() + b'l'
        if m in ('G', 'H', 'L', 'M', "'a", '`a', "''", '{', '}', '%', ';', ',', 'n', 'N', '^', '0', '$'):
            return m.encode()
        return self.count() + m.encode()

    def scroll(self):
        r = self.r
        k = r.choice(['e', 'y', 'd', 'u', 'f', 'b', 'e', 'y', 'z\n', 'z.', 'z-'])
        if k.startswith('z'):
            c = b'' if r.chance(2, 3) else str(r.choice([1, 2, self.h, self.nlines // 2 + 1, max(self.nlines, 1), self.nlines + 3])).encode()
            return c + k.encode()
        return self.count() + ctl(k)

    def insert(self):
        r = self.r
        c = r.choice(['i', 'a', 'A', 'I', 'o', 'O', 'o', 'O', 'A'])
        t = self.text()
        if r.chance(1, 8) and t:
            t = t + r.choice([b'\x08', b'\x17', b'\x15', b'\x7f']) + r.choice([b'', b'k'])
        pre = b''
        if r.chance(1, 12):
            pre = r.choice([b'2', b'3'])
        return pre + c.encode() + t + ESC

    def change(self):
        r = self.r
        c = r.choice(['cw', 'cc', 'C', 's', 'S', 'c$', 'cb', 'ce', 'cj', 'ck', 'c0', 'cl', '2cw', '3cc', 'cG', 'R'])
        return c.encode() + self.text() + ESC

    def edit(self):
        r = self.r
        e = r.choice(['x', 'X', 'dd', 'dd', 'dw', 'D', 'd$', 'db', 'dj', 'dk', 'dG', 'dH', 'dL', 'd}', 'p', 'P', 'p', 'P', 'yy', 'yw', 'Y', 'yj', 'J', 'J',
                      'rZ', '~', '>>', '<<', '.', '.', 'ma', '"ayy', '"ap', '"aP', 'g~w', 'gUU', 'yG', 'y$', '>j', '<k',
                      'yb', 'y0', 'y^', 'yFa', 'yTe', 'y?a\n', 'yB', 'yh', 'yk', 'y1G',
                      'g~k', 'gUk', '>k', '<k', '>-', '<1G', 'g~j', '>}', 'guH', 'yH', 'y-', '>L',
                      'y/pat', 'y/pat', 'd/pat', 'y}', 'y2w', 'y4w', 'y3e', 'y`a', 'y2}', 'cput', 'cput', 'cput'])
        if e in ('y/pat', 'd/pat'):
            # a character-wise region that usually ends on a later line: the register holds newlines
            return e[0].encode() + b'/' + r.choice(['line', 'e ', '^l', 'a', 'b', '1', '2', '3', 'x']).encode() + b'\n'
        if e == 'cput':
            # a put with a small count (the register may be character-wise with newlines, see above)
            return r.choice([b'', b'', b'"a']) + r.choice([b'2', b'3', b'4', b'2']) + r.choice([b'p', b'P'])
        if e in ('x', 'dd', 'J', 'p', 'P', 'yy', '>>', '<<', 'X', '~', 'dw', '.'):
            return self.count() + e.encode()
        return e.encode()

    def undo(self):
        return self.r.choice([b'u', b'u', ctl('r'), b'u' + ctl('r'), b'uu'])

    def ex(self):
        r = self.r
        n = max(self.nlines, 1)
        a = r.choice([1, 2, self.h, n // 2 + 1, n])
        b = a + r.choice([0, 1, 2, self.h])
        c = r.choice([
            ':%d' % a, ':$', ':1', ':%d,%dd' % (a, b), ':s/a/AA/', ':%s/e/EE/g', ':%s/a//g', ':g/a/d', ':g/x/s/x/yyy/', ':%d,%dm0' % (a, b), ':%d,%dm$' % (a, b),
            ':%d,%dt.' % (a, b), ':t.', ':1,$j', ':%d,%dj' % (a, b), ':%d,%dy' % (a, b), ':pu', ':0pu', ':se hll', ':se nohll', ':se hl', ':se nohl', ':se ai', ':se noai',
            ':%d,%d>' % (a, b), ':%d,%d<' % (a, b), ':u', ':rd', ':%dk a' % a, ':foo', ':%d,%dd|foo' % (a, b), ':1,%dp' % b, ':%d=' % a, ':%d,%dp' % (a, a),
            ':$a\nnew1\nnew2\n.', ':%di\nins\n.' % a, ':%d,%dc\nchg\n.' % (a, b), ':v/a/d', ':%d,%dg/./m0' % (a, b),
            SHELL, SHELL,
        ])
        tail = b'\n'
        if c == SHELL:
            tail = b'\n\n'              # [enter to continue] after the child (on a modified buffer the command fails: the second
                                        # newline is then a motion)
        if c.startswith(':1,') and c.endswith('p') or c.endswith('='):
            tail = b'\n\n'              # answers a possible [enter to continue]
        return c.encode() + tail

    def atom(self, profile):
        r = self.r
        t = r.below(100)
        w = profile
        if t < w[0]:
            return self.motion()
        if t < w[1]:
            return self.scroll()
        if t < w[2]:
            return self.insert()
        if t < w[3]:
            return self.change()
        if t < w[4]:
            return self.edit()
        if t < w[5]:
            return self.undo()
        if t < w[6]:
            return self.ex()
        return ctl('l')


# the last weight: what is left of 100 is ^L (term_done(); term_init(); full repaint)
PROFILES = {
    'mixed':   [25, 40, 55, 62, 79, 87, 96],
    'scroll':  [25, 74, 79, 81, 89, 94, 97],
    'edit':    [15, 25, 45, 58, 84, 93, 97],
    'motion':  [70, 85, 90, 92, 95, 97, 98],
}
# `:!cmd` hands the terminal to a child: cmd_pipe() calls term_done() before and term_init() after it.  The child's stdin is
# /dev/null (never the key pipe), it writes nothing.  Needs an unmodified buffer (else "buffer modified": a failed command).
SHELL = ':!true </dev/null'
REINIT = [b'\x0c', SHELL.encode() + b'\n\n']


def gen_lines(rng, n, cols, style):
    out = []
    for i in range(n):
        t = rng.below(12)
        if style == 'plain' or t < 5:
            s = 'line %d' % (i + 1)
            if rng.chance(1, 3):
                s += ' ' + ''.join(rng.choice('abcdefgh ') for _ in range(rng.range(0, max(1, cols - 6))))
        elif t < 6:
            s = ''
        elif t < 8:
            s = ''.join(rng.choice('abcdefghijklmnopqrstuvwxyz (){}') for _ in range(rng.choice([cols - 1, cols, cols + 1, cols + cols // 2, 2 * cols, 2 * cols + 1, 3 * cols + 2])))
        elif t < 9:
            s = rng.choice(['\tindented', 'a\tb\tc', '\t\tdeep a', 'xx\ty', '    sp'])
        elif t < 10 and style == 'wide':
            s = ''.join(rng.choice(['a', 'b', ' ', WIDE[0], WIDE[1], WIDE[2], NARROW2[0], NARROW2[1]]) for _ in range(rng.choice([3, cols // 2, cols, cols + 3])))
        else:
            s = ' '.join(rng.choice(['a', 'bb', 'cat', 'x1', 'e.', 'L(', ')']) for _ in range(rng.range(1, 6)))
        out.append(s.rstrip(' ') if rng.chance(1, 2) else s)
    return out


def gen_case(rng, quick, k):
    rows = rng.choice([2, 2, 3, 4, 5, 6, 8, 10, 24])
    cols = rng.choice([2, 3, 5, 8, 10, 20, 20, 40, 80])
    if k % 7 == 0:
        rows, cols = rng.choice([(2, 2), (24, 80), (2, 80), (24, 2), (3, 3), (5, 20)])
    h = rows - 1
    n = rng.choice([0, 0, 1, 2, max(h - 1, 1), h, h + 1, 2 * h, 2 * h + 3, 3 * h + 1, 5 * h])
    n = min(n, 70)
    style = rng.choice(['plain', 'mixed', 'mixed', 'wide', 'ctl'])
    lines = gen_lines(rng, n, cols, 'mixed' if style == 'ctl' else style)
    if style == 'ctl':
        lines = ctl_lines(rng, lines, cols)
    prof = rng.choice(['mixed', 'mixed', 'scroll', 'edit', 'motion'])
    g = Gen(rng, rows, cols, n)
    natoms = rng.range(3, 8 if quick else 14)
    atoms = [g.atom(PROFILES[prof]) for _ in range(natoms)]
    if rng.chance(1, 6):
        # the terminal is re-initialised early in the session (the buffer is still unmodified: `:!cmd` runs)
        atoms.insert(rng.below(2), rng.choice(REINIT))
    return finish_case(rng, rows, cols, lines, atoms, prof, quick)


def finish_case(rng, rows, cols, lines, atoms, prof, quick, opts=None):
    opts = list(opts or [])
    if rng.chance(1, 3):
        opts.append('se hll')
    if rng.chance(1, 6):
        opts.append('se nohl')
    if rng.chance(1, 8) and 'se ai' not in opts:
        opts.append('se noai')
    name = rng.choice(['f', 'f', 'f.c', 'f.sh'])
    case = {'rows': rows, 'cols': cols, 'lines': lines, 'atoms': [a.hex() for a in atoms], 'exinit': '|'.join(opts), 'name': name, 'profile': prof}
    case['mid'] = mid_points(rng, atoms, 4 if quick else 8)
    return case


# ---- aimed shapes: an edit on the first / last row of the window, undone and redone, mixed with scrolls; edits while the
# window is scrolled horizontally; every prefix of the program is judged, so the state right after each edit is


def ml_text(rng, h, ai=False):
    """multi-line text typed in insert mode"""
    nl = rng.choice([1, 2, 3, max(h - 1, 1), h, h + 1])
    ws = []
    for i in range(nl + 1):
        w = ''.join(rng.choice('abcdefgxyz01') for _ in range(rng.choice([0, 1, 3, 6])))
        if ai and rng.chance(1, 3):
            w = rng.choice(['\t', '  ', ' \t']) + w
        ws.append(w)
    return '\n'.join(ws).encode()


AIMED_SHAPES = ['top-O', 'bot-o', 'mid-i', 'ai', 'bot-J', 'put', 'bot-dd', 'horiz', 'horiz', 'scrollmix', 'sticky', 'bot-o', 'top-back', 'cput', 'c-below',
                'reinit', 'ctl', 'reinit']


def gen_aimed(rng, quick, k):
    rows = rng.choice([3, 4, 5, 6, 8, 10])
    cols = rng.choice([8, 10, 20, 20, 40])
    h = rows - 1
    shape = AIMED_SHAPES[k % len(AIMED_SHAPES)]
    n = rng.choice([h, h + 1, 2 * h + 1, 3 * h + 2, 4 * h + 1])
    style = 'plain' if shape not in ('horiz',) else 'mixed'
    lines = gen_lines(rng, n, cols, style)
    if shape == 'ai':
        lines = [(rng.choice(['\t', '    ', '\t\t', '  ']) if rng.chance(1, 2) else '') + l for l in lines]
    if shape == 'horiz':
        for i in range(0, n, 2):
            lines[i] = ''.join(rng.choice('abcdefghijklmnopqrstuvwxyz   ') for _ in range(rng.choice([cols, cols + 1, cols + cols // 2, 2 * cols + 1, 3 * cols]))).strip() or 'x' * cols
    if shape == 'sticky':
        # lines of very different lengths, distinct characters per line: a remembered column (n| / $ then j k ^E ^Y) larger than
        # the next line is wide; ^E pushes the cursor off the first row, ^Y off the last one, onto a longer line
        rows, cols = rng.choice([(4, 40), (5, 40), (8, 40), (6, 80), (5, 20)])
        h = rows - 1
        n = rng.choice([2 * h + 2, 3 * h + 1, 4 * h])
        abc = 'abcdefghijklmnopqrstuvwxyz0123456789ABCDEFGHIJKLMNOPQRSTUVWXYZ'
        lines = []
        for i in range(n):
            ln = rng.choice([0, 1, 2, 4, 6]) if i % 2 == rng.below(2) or rng.chance(1, 4) else rng.range(cols // 2, cols - 2)
            lines.append(''.join(abc[(i * 7 + j) % len(abc)] for j in range(ln)))
    if shape == 'cput':
        # windows in which the count * newlines + 1 new lines fit with rows left below them, and windows they overflow
        rows = rng.choice([4, 5, 6, 8, 10, 12, 16, 24])
        h = rows - 1
        n = rng.choice([h, h + 1, h + 3, 2 * h + 1, 3 * h + 2])
        lines = gen_lines(rng, n, cols, 'plain')
    if shape == 'c-below':
        rows = rng.choice([4, 5, 6, 8, 11])
        h = rows - 1
        n = rng.choice([2 * h + 3, 3 * h + 2, 4 * h + 1])
        lines = gen_lines(rng, n, cols, 'plain')
    if shape == 'reinit':
        rows = rng.choice([3, 4, 5, 6, 8, 10, 24])
        h = rows - 1
        n = rng.choice([h, h + 1, 2 * h + 1, 3 * h + 2])
        lines = gen_lines(rng, n, cols, 'plain')
    if shape == 'ctl':
        # control characters in the buffer lines: short lines, and lines longer than the window with a control character before,
        # at and after the column where the scrolled window starts; a letter after every control character to aim f/t at
        lines = gen_lines(rng, n, cols, 'mixed')
        for i in range(0, n, 3):
            lines[i] = ''.join(rng.choice('abcdefghijklmnopqrstuvwxyz  ') for _ in range(rng.choice([3, cols - 2, cols + 1, cols + cols // 2, 2 * cols + 1]))).strip() or 'xy'
        lines = ctl_lines(rng, lines, cols, every=1 if rng.chance(1, 2) else 2)
    if shape == 'horiz' and rng.chance(1, 3):
        lines = ctl_lines(rng, lines, cols)
    g = Gen(rng, rows, cols, n)
    e = lambda x: x.encode() if isinstance(x, str) else x

    def to_top():
        t = rng.range(2, max(2, n - 1))
        return rng.choice([[b'H'], [e('%dG' % t), b'z\n', ], [e('%dz\n' % t), b'H'], [b'G', b'H'], [ctl('d'), b'H'], [e('%d' % rng.range(1, h)) + ctl('e'), b'H']])

    def to_bot():
        t = rng.range(min(h, n), n)
        return rng.choice([[b'L'], [e('%dG' % t), b'z-'], [b'G'], [ctl('d'), b'L'], [e('%dz\n' % max(1, t - h + 1)), b'L'], [ctl('f'), b'L']])

    def undo3():
        return rng.choice([[b'u', ctl('r'), b'u'], [b'u', ctl('r')], [b'u'], [b'u', b'u', ctl('r'), ctl('r')]])
    A = []
    if shape == 'top-O':
        A += to_top() + [b'O' + ml_text(rng, h) + ESC] + undo3() + [g.scroll(), b'O' + g.text() + ESC] + undo3()
    elif shape == 'bot-o':
        A += to_bot() + [b'o' + ml_text(rng, h) + ESC] + undo3() + [g.scroll()] + to_bot() + [b'o' + g.text() + ESC, b'u']
    elif shape == 'mid-i':
        A += rng.choice([to_top(), to_bot(), [e('%dG' % rng.range(1, n))]]) + [rng.choice([b'w', b'$', b'0', b'e'])]
        A += [rng.choice([b'i', b'a', b'A', b'I', b'cw', b'S', b'cc', b'C', b's']) + ml_text(rng, h) + ESC] + undo3() + [g.scroll(), b'.'] + undo3()
    elif shape == 'ai':
        A += rng.choice([to_top(), to_bot()]) + [rng.choice([b'o', b'O', b'A', b'cc', b'S']) + ml_text(rng, h, ai=True) + ESC] + undo3()
        A += [g.scroll(), rng.choice([b'o', b'O']) + ml_text(rng, 2, ai=True) + ESC, b'u']
    elif shape == 'bot-J':
        A += to_bot() + [rng.choice([b'J', b'3J', b'2J', e('%dJ' % (h + 1))])] + undo3() + [b'k', b'J', b'u', g.scroll()] + to_bot() + [b'kJ'[0:1], b'J', b'.']
    elif shape == 'put':
        m = rng.choice([2, 3, h - 1, h, h + 1]) or 1
        reg = rng.choice([b'', b'"a'])
        A += [e('%dG' % rng.range(1, n)), reg + e('%dyy' % m)]
        A += rng.choice([to_top(), to_bot()]) + [reg + rng.choice([b'p', b'P'])] + undo3()
        A += rng.choice([to_top(), to_bot()]) + [reg + rng.choice([b'2p', b'P', b'p', b'3P'])] + undo3() + [g.scroll(), reg + b'p', b'u']
    elif shape == 'cput':
        # a CHARACTER-WISE register that holds 1..3 newlines (y/pat, d/pat, y<n>w, y}, y`a across line ends), put with p / P and
        # a count 1..4 (and repeated by [count].) on the first, a middle and the last row of the window, on the first and the
        # last line of the buffer: line xrow becomes count * newlines + 1 lines -- fewer, as many or more than the rows below it
        t = rng.range(1, max(1, n - 3))
        d = rng.range(1, 3)
        colm = lambda: rng.choice([b'', b'l', b'll', b'w', b'e', b'$', b'0', b'3l'])
        reg = rng.choice([b'', b'', b'"a'])
        op = rng.choice([b'y', b'y', b'y', b'd'])
        how = rng.below(8)
        if how < 3:
            yank = [e('%dG' % t), colm(), reg + op + e('/%s\n' % rng.choice(['e %d' % (t + d), '^line %d' % (t + d), 'ne %d' % (t + d), ' %d' % (t + d)]))]
        elif how < 4:
            yank = [e('%dG' % (t + d)), rng.choice([b'', b'l', b'w', b'e']), b'ma', e('%dG' % t), colm(), reg + op + b'`a']
        elif how < 5:
            yank = [e('%dG' % t), rng.choice([b'w', b'$', b'e', b'l']), reg + op + e('%dw' % rng.choice([2, 3, 4, 5, 6]))]
        elif how < 6:
            yank = [e('%dG' % t), rng.choice([b'w', b'$', b'e']), reg + op + e('%de' % rng.choice([2, 3, 4, 5]))]
        elif how < 7:
            # paragraphs: blank lines t+d and further down
            for j in (t + d - 1, t + d + 2, t + d + 4):
                if 0 <= j < n:
                    lines[j] = ''
            yank = [e('%dG' % t), colm(), reg + op + rng.choice([b'}', b'}', b'2}'])]
        else:
            yank = [e('%dG' % (t + d)), colm(), reg + op + e('?%s\n' % rng.choice(['e %d' % t, 'ine %d' % t, '%d' % t]))]
        A += yank
        cntp = lambda: rng.choice([b'', b'1', b'2', b'2', b'3', b'3', b'4'])
        places = [to_top, to_bot, lambda: [b'M'], lambda: [b'1G'], lambda: [b'G'], lambda: [e('%dG' % rng.range(1, n))],
                  lambda: to_top() + [b'j'], lambda: to_bot() + [b'k']]
        for rnd in range(3):
            A += rng.choice(places)() + [colm(), reg + cntp() + rng.choice([b'p', b'P'])]
            A += rng.choice([undo3(), undo3(), [rng.choice([b'', b'2', b'3']) + b'.'], [rng.choice([b'2', b'3', b'4']) + b'.', b'u'], [], [g.scroll(), b'u']])
        A = [a for a in A if a]
    elif shape == 'c-below':
        # the change operator on a region of several lines whose LAST line is below the last row of the window, started on a row
        # that has rows below it: the preview vi_drawfix(r1, r2, 1, 1) draws the rows under the placeholder from the lines after the
        # region (a displacement larger than the window is high); judged inside the insert and after it (an older seeded change
        # of that displacement was only met by chance)
        nz = lambda v: v + 1 if '0' in str(v) else v
        for rnd in range(2):
            t = rng.range(1, max(1, n - 2 * h - 2))
            A += rng.choice([[e('%dG' % t), b'z\n'], [e('%dz\n' % t), b'H'], [b'1G'], [e('%dG' % t), b'z\n', b'j'], [e('%dG' % t), b'z\n', e('%dj' % rng.range(1, max(1, h - 2)))]])
            far = nz(rng.choice([h, h + 1, h + 2, 2 * h]))
            cmd = rng.choice([e('c%dj' % far), e('%dcc' % nz(far + 1)), b'cG', e('c%dG' % nz(min(n, t + far + 1))), e('c%dj' % far)])
            A += [cmd + rng.choice([g.text(), ml_text(rng, h), b'new'])+ ESC] + undo3() + [g.scroll()]
    elif shape == 'top-back':
        # an operator whose backward line motion starts on the first row of a scrolled window: the change begins above the window
        back = lambda: rng.choice([b'k', b'-', b'2k', b'1G', b'{', b'H', e('%dk' % h)])
        for _ in range(2):
            A += to_top() + [rng.choice([b'g~', b'gU', b'gu', b'>', b'<', b'd', b'y', b'c']) + back()]
            if A[-1][:1] == b'c':
                A[-1] += g.text() + ESC
            A += undo3()
        A += to_bot() + [rng.choice([b'g~', b'>', b'<', b'd', b'y']) + rng.choice([b'j', b'+', b'2j', b'G', b'}', b'L'])] + undo3()
    elif shape == 'bot-dd':
        A += to_bot() + [rng.choice([b'dd', b'2dd', b'dk', b'dG', b'dj', e('%ddd' % h)])] + undo3() + [b'.', g.scroll()] + to_bot() + [b'dd', b'.', b'u', b'u']
    elif shape == 'horiz':
        ln = 1 + 2 * rng.below(max(1, (n + 1) // 2))
        A += [e('%dG' % ln), rng.choice([b'$', e('%d|' % (cols + 3)), e('%d|' % (2 * cols)), b'$b', e('%dl' % cols)])]
        for _ in range(3):
            A += [rng.choice([b'x', b'3x', b'X', b'D', b'rZ', b'~', b'iabc' + ESC, b'a' + g.text(nl=False) + ESC, b'A' + g.text(nl=False) + ESC, b'cwQQ' + ESC, b'ywP', b'yyp', b'J', b'dd',
                              b'o' + g.text() + ESC, b'O' + g.text() + ESC, b'dw', b'db', b'd0', b'i\n' + ESC, b'p', b'>>', b'<<', b'ifoo\nbar' + ESC])]
            A += rng.choice([[b'u'], [b'u', ctl('r')], [], [rng.choice([b'j', b'k', b'$', b'0', b'w', ctl('e'), ctl('y')])]])
    elif shape == 'sticky':
        col = lambda: e('%d|' % rng.choice([cols // 2 - 1, cols // 2 + 2, cols - 4, 22 if cols > 24 else 9]))
        for _ in range(2):
            fwd = rng.chance(1, 2)
            A += (to_top() if fwd else to_bot()) + [rng.choice([col(), col(), b'$'])]
            if rng.chance(1, 2):
                A += [rng.choice([b'j', b'k'])]
                A += [b'H' if fwd else b'L'][:0]        # (the cursor stays where j/k put it)
            sc = (ctl('e') if fwd else ctl('y'))
            for _ in range(rng.range(2, 4)):
                A += [rng.choice([b'', b'', b'2', b'3']) + sc]
            A += rng.choice([[b'x', b'u'], [b'rX'], [ctl('y') if fwd else ctl('e')], [b'~']])
    elif shape == 'reinit':
        # the terminal is re-initialised during the session (^L: term_done(); term_init();  `:!cmd`: cmd_pipe() does the same around
        # the child), no window command follows, then an insert opens a line on the BOTTOM text row: vi_nextline() writes '\n' and
        # relies on the terminal's scroll region being the text rows again (coq: C19_reinit_region_iff, C19_nextline_bottom_needs_region)
        def opener():
            t = rng.choice([ml_text(rng, h), g.text(), b'new', b'x\ny'])
            return rng.choice([b'o' + t + ESC, b'o' + t + ESC, b'A' + rng.choice([b'', b'x']) + b'\n' + t + ESC, b'i\n' + ESC, b'cc' + b'a\nb' + ESC, b'S' + t + b'\n' + ESC, b'2o' + b'z' + ESC])
        A += rng.choice([[REINIT[0]], [REINIT[1]], [g.motion(), REINIT[0]], [REINIT[1], REINIT[0]], [g.scroll(), REINIT[1]], [g.edit(), REINIT[0]], [g.insert(), b'u', REINIT[0]]])
        for _ in range(rng.below(3)):
            A += [rng.choice([g.scroll, g.motion, g.ex, g.edit, g.undo])()]
        A += to_bot() + [opener()] + undo3() + [g.scroll()]
        if rng.chance(1, 2):
            A += [REINIT[0]]
        A += rng.choice([to_bot(), [b'G'], to_bot() + [b'k', b'j']]) + [opener()] + rng.choice([[], [b'u'], [ctl('e')], [ctl('y')]])
    elif shape == 'ctl':
        ctlrows = [i for i, l in enumerate(lines) if any(is_ctl(ch) for ch in l)] or [0]
        for _ in range(3):
            ln = rng.choice(ctlrows)
            l = lines[ln]
            after = [l[j + 1] for j in range(len(l) - 1) if is_ctl(l[j]) and l[j + 1].isalnum()]
            mv = [b'$', b'$', b'0', b'w', b'e', b'$h', b'3l', e('%d|' % cols), e('%d|' % (cols + 2)), b'ww', b'$b', e('%dl' % (cols // 2))]
            if after:
                mv += [e('f' + rng.choice(after)), e('t' + rng.choice(after)), e('f' + rng.choice(after))]
            A += [e('%dG' % (ln + 1)), rng.choice(mv)]
            A += [rng.choice([b'x', b'rZ', b'~', b'iab' + ESC, b'a' + g.text(nl=False) + ESC, b'A' + g.text(nl=False) + ESC, b'D', b'cwQ' + ESC, b'yyp', b'J', b'X',
                              b'o' + g.text() + ESC, b'dw', b'>>', b'i\n' + ESC, b'kJ', b'h', b'l', b'k$', b'j$'])]
            A += rng.choice([[b'u'], [b'u', ctl('r')], [], [rng.choice([b'j', b'k', b'$', b'0', ctl('e'), ctl('y')])]])
    else:   # scrollmix
        for _ in range(4):
            A += [g.scroll(), rng.choice([g.edit, g.insert, g.change, g.undo, g.edit])()]
        A += [b'z' + rng.choice([b'\n', b'.', b'-']), b'u', ctl('r')]
    A += [g.atom(PROFILES['mixed']) for _ in range(rng.range(0, 2))]
    opts = ['se ai'] if shape == 'ai' else []
    return finish_case(rng, rows, cols, lines, A, 'aimed-' + shape, quick, opts)


def gen_split(rng, quick, k):
    """two windows on one buffer: ^Ws, then motions, scrolls, edits, inserts, undo, ex commands and window switches"""
    rows = rng.choice([6, 7, 8, 9, 10, 11, 24, 25])      # both halves get >= 2 text rows (see design.d/C19.md: one-row halves)
    cols = rng.choice([10, 20, 20, 40])
    hh = rows // 2 - 1
    n = rng.choice([0, 1, hh, hh + 1, 2 * hh + 1, 3 * hh + 2, 5 * hh + 3, 40])
    lines = gen_lines(rng, n, cols, rng.choice(['plain', 'plain', 'mixed']))
    g = Gen(rng, max(rows // 2, 2), cols, n)
    atoms = [b'\x17s']
    natoms = rng.range(4, 9 if quick else 14)
    restricted = (k % 3 == 0)           # motions and scrolls only (the shape that catches mis-sized halves)
    for _ in range(natoms):
        t = rng.below(100)
        if restricted:
            atoms.append(g.atom([55, 100, 100, 100, 100, 100, 100]))
        elif t < 14:
            atoms.append(b'\x17' + rng.choice([b'j', b'k', b'j', b'k', b'j', b'x', b'x', b'o', b'c', b's']))
        elif t < 20:
            atoms.append(rng.choice([b'G', b'1G', b'30' + ctl('e'), b'30' + ctl('y'), ctl('f'), ctl('b'), b'%dG' % max(1, n // 2)]))
        else:
            atoms.append(g.atom([18, 34, 50, 56, 76, 84, 98]))
    return finish_case(rng, rows, cols, lines, atoms, 'split', quick)


# ---- split windows + ex commands that write to the terminal themselves and wait for Enter


def say_script(nlines, width):
    """a shell script that prints `nlines` short lines, each ended by CR LF (the harness has no tty that would add the CR),
    the first one after a CR LF of its own (the child starts writing where the prompt left the cursor)"""
    return "printf '" + ''.join('\\r\\n' + ('out %d ' % (k + 1) + 'o' * width)[:width] for k in range(nlines)) + "\\r\\n'\n"


def up_script(nlines, width):
    """stdin (the buffer lines `:w !` sends) in upper case, cut to `width` characters, at most `nlines` lines, CR LF ended"""
    return "printf '\\r\\n'; cut -c1-%d | tr a-z A-Z | sed %dq | sed 's/$/\\r/'; cat >/dev/null\n" % (width, nlines)


def gen_splitex(rng, quick, k):
    """two windows (^Ws) and ex commands that hand the terminal to something else -- `:w !cmd` and `:!cmd` (the child writes over
    the rows below the message row of the ACTIVE window: from the upper window that is the lower window), multi-line `:p` /
    `:g/../p` (printed through the scroll region of the active window) -- and then wait at "[enter to continue]" (vi_wait()
    resets the scroll region to the whole screen): afterwards the tail of vi() has to repaint BOTH windows and to restore the
    region of the active one.  The continue step is answered with Enter or left with ESC; then motions and scrolls in both
    windows (a window that kept the whole-screen geometry lets the cursor leave its half)."""
    rows = rng.choice([8, 9, 10, 11, 12, 13, 16, 24, 25])
    cols = rng.choice([20, 30, 40])
    hh = rows // 2 - 1
    n = rng.choice([hh, hh + 2, 2 * hh + 1, 3 * hh + 2, 30, 40])
    lines = gen_lines(rng, n, cols, 'plain')
    g = Gen(rng, max(rows // 2, 2), cols, n)
    e = lambda x: x.encode() if isinstance(x, str) else x
    aux = {'say': say_script(rng.choice([1, 2, hh, hh + 1, rows - 2, rows + 2]), rng.choice([5, 8, cols - 1])),
           'up': up_script(rng.choice([1, 2, 3, hh, rows]), rng.choice([4, 7, cols - 1]))}
    wa = rng.chance(1, 2)
    # every fourth program: a SECOND BUFFER in one of the windows (`:e g` after the split) and no edits at all, so that the text of both
    # buffers is known: each window has to show a true window of ITS buffer at its own top (the tail of vi() repaints the other window
    # through vi_switch(): `e! path` / `ew! path`, the saved row / top)
    two = (k % 4 == 3)
    lines2 = ['other %d' % (i + 1) + rng.choice(['', ' ' + ''.join(rng.choice('mnopqr ') for _ in range(rng.range(1, cols - 10))).rstrip()]) for i in range(rng.choice([hh + 1, 2 * hh + 3, 25]))]

    def printer():
        a = rng.range(1, max(1, n - 2))
        c = rng.choice([':w !sh up', ':w !sh up', ':w !sh up', ':w! !sh up', ':!sh say </dev/null', ':!sh say </dev/null',
                        ':%d,%dp' % (a, a + rng.choice([1, 2, hh, hh + 2])), ':g/e/p', ':g/1/p', ':%d,%dw !sh up' % (a, a + 2),
                        ':w other', ':w! other', ':%d=' % a, ':ec hello', ':b', ':w >>other', ':ft', ':%d,%dg/./p' % (a, a + 3)])
        return e(c) + b'\n' + rng.choice([b'\n', b'\n', b'\n', ESC])

    def moves():
        out = []
        for _ in range(rng.range(1, 3)):
            out.append(rng.choice([b'j', b'k', e('%dj' % rng.choice([2, hh, hh + 1, 2 * hh])), e('%dk' % rng.choice([2, hh, hh + 1])), ctl('e'), ctl('y'), ctl('d'), ctl('u'),
                                   e('%d' % rng.choice([2, hh])) + ctl('e'), b'G', b'1G', e('%dG' % rng.range(1, max(1, n))), b'L', b'H', b'Lj', b'Hk', b'$', b'w', ctl('f'), ctl('b')]))
        return out
    A = []
    if rng.chance(1, 3):
        A += [rng.choice([e('%dG' % rng.range(1, max(1, n))), ctl('d'), b'G'])]
    A += [b'\x17s']
    if rng.chance(1, 3):
        A += moves()
    if rng.chance(1, 3):
        A += [b'\x17j']
    if two:
        A += [b':e g\n'] + moves()
    for rnd in range(rng.range(2, 3)):
        A += [printer()] + moves()
        t = rng.below(10)
        if t < 5:
            A += [b'\x17' + rng.choice([b'j', b'k'])] + moves()
        elif t < 6:
            A += [b'\x17x'] + moves()
        elif t < 7 and rnd:
            A += [b'\x17' + rng.choice([b'o', b'c'])] + moves() + [printer()] + moves() + [b'\x17s']
        if rng.chance(1, 3) and not two:
            A += [rng.choice([b'x', b'dd', b'oq' + ESC, b'J', b'yyp', b'rZ', b'u'])]
        if two and rng.chance(1, 3):
            A += [rng.choice([b':e f\n', b':e g\n'])] + moves()         # (not `:e #`: vi_switch() itself edits files, the alternate one moves)
    case = finish_case(rng, rows, cols, lines, [a for a in A if a], 'splitex', quick, ['se wa'] if wa else [])
    if two:
        case['name'] = 'f'
        aux['g'] = ''.join(l + '\n' for l in lines2)
        case['file2'] = {'name': 'g', 'lines': lines2}
    case['aux'] = aux
    case['mid'] = []            # no probe points inside inserts (the other split stream has them): see streams_agree
    return case


# ---- right-to-left lines, the text direction option, prompts that are answered or cancelled


def gen_rtl(rng, quick, k):
    """buffers that mix left-to-right lines with lines whose base direction is right-to-left (first letter Arabic; first letter
    Hebrew or a neutral character under a negative `td`; every line under td=-2), under td = default, +2, +1, -1, -2 (EXINIT,
    `:se td=`, z> z< 2z> 2z<).  Rounds of: go to a line, a PROMPT -- `:` `/` `?` left with ESC or ^C (nothing is repainted), a
    search answered with Enter (a motion, nothing is repainted), `:` commands (full repaint), a multi-line `:p` whose
    "[enter to continue]" is answered or cancelled -- then operations that redraw single rows or scroll (j k x r ~ J D dd p
    yyp A ^E ^Y u): the rows drawn by the partial redraw and the cell of the terminal cursor use the same base direction as the
    rows drawn before the prompt (led_prompt edits its own line under td=+2 and restores the option on every way out)."""
    rows = rng.choice([4, 5, 6, 8, 10])
    cols = rng.choice([10, 20, 30, 40])
    h = rows - 1
    n = rng.choice([max(2, h - 1), h, h + 2, 2 * h + 1])
    word = lambda ab, lo=2, hi=5: ''.join(rng.choice(ab) for _ in range(rng.range(lo, hi)))
    lines = []
    for i in range(n):
        t = rng.below(12)
        if t < 4:
            s = ' '.join(word(R2L) for _ in range(rng.range(1, 3)))
        elif t < 5:
            s = word(R2L) + ' ' + word('abcdefgh') + ' ' + word(R2L)
        elif t < 6:
            s = ' '.join(word(R2L) for _ in range(rng.choice([cols // 4, cols // 3 + 1])))            # around / beyond the window width
        elif t < 7:
            s = word(HEBREW) + ' ' + word('xyz') + rng.choice(['', ' ' + word(HEBREW)])
        elif t < 8:
            s = rng.choice(['(', ' ', '.', '1']) + word('abcd') + rng.choice(['', ' ' + word(R2L)])
        elif t < 9:
            s = word('abcd') + ' ' + word(R2L) + ' ' + word(R2L) + rng.choice(['', ' ' + word('ef')])
        elif t < 10:
            s = ''
        else:
            s = 'line %d' % (i + 1) + rng.choice(['', ' ' + word('abcdefgh', 3, max(3, cols - 6))])
        lines.append(s)
    if not any(l[:1] in R2L for l in lines[:h] if l):
        lines[rng.below(min(h, n))] = word(R2L) + ' ' + word(R2L)
    g = Gen(rng, rows, cols, n)
    e = lambda x: x.encode() if isinstance(x, str) else x
    td0 = rng.choice([None, None, 2, 1, -1, -2, -1, -2])
    if rng.chance(1, 4):
        # the FIRST line starts with a run shown in the other direction that is wider than the window: the character the cursor
        # starts on is drawn beyond the window unless the xleft rule runs before the first paint (probe point 0; fix 11b9bf2)
        wide = lambda ab: ' '.join(word(ab, 3, 6) for _ in range(cols // 4 + 1))[:cols + rng.choice([1, 2, 5, cols // 2 + 1])].rstrip()
        if td0 == -2:
            lines[0] = wide('abcdefgh') + ' ' + word(R2L)           # right-to-left context: the Latin run is the reordered one
        else:
            td0 = 2
            lines[0] = wide(R2L)
    opts = []
    if td0 is not None:
        opts.append('se td=%d' % td0)
    if rng.chance(1, 3):
        opts.append('se noshape')
    rl = [i for i, l in enumerate(lines) if l[:1] in R2L or l[:1] in HEBREW] or [0]

    def goto():
        ln = rng.choice(rl) if rng.chance(2, 3) else rng.below(n)
        near = max(0, min(n - 1, ln + rng.choice([-1, 1, -2, 1])))
        return [e('%dG' % (near + 1)), rng.choice([b'', b'$', b'0', b'w', b'l', b'3l', b'e', b'ww'])]

    def prompt():
        t = rng.below(16)
        pat = rng.choice(['line', 'a', 'b', 'e', 'zz', rng.choice(R2L), 'x'])
        if t < 7:        # cancelled: nothing runs
            return [rng.choice([b':', b':', b':abc', b':se td=2', b'/', e('/' + pat), b'?', e('?' + pat), b':1,2p', b':q']) + rng.choice([ESC, ESC, b'\x03'])]
        if t < 10:       # a search answered with Enter: a motion
            return [e(rng.choice(['/', '?']) + pat + '\n')]
        if t < 11:
            return [b':\n']
        if t < 13:       # printed lines, then the continue step answered or cancelled
            a = rng.range(1, max(1, n - 1))
            return [e(':%d,%dp\n' % (a, min(n, a + rng.range(1, 3)))) + rng.choice([b'\n', ESC, b'\x03'])]
        if t < 14:
            return [e(rng.choice([':se ai', ':se noai', ':%d' % rng.range(1, n), ':se td=%d' % rng.choice([2, 1, -1, -2, 0])]) + '\n')]
        if t < 15:
            return [rng.choice([b'z>', b'z<', b'2z>', b'2z<'])]
        return [e('/' + pat) + ESC, e('?' + pat + '\n')]

    def partial():
        out = []
        for _ in range(rng.range(2, 4)):
            out.append(rng.choice([b'j', b'k', b'j', b'k', b'x', b'rZ', b'~', b'J', b'D', b'dd', b'p', b'yyp', b'Aq' + ESC, b'ixy' + ESC, b'l', b'h', b'$', b'0', b'w',
                                   ctl('e'), ctl('y'), b'u', b'2j', b'2k', b'X', b'.', b'+', b'-', b'ddP', b'>>']))
        return out
    A = []
    for rnd in range(rng.range(2, 3)):
        A += goto() + prompt() + partial()
    case = finish_case(rng, rows, cols, lines, [a for a in A if a], 'rtl', quick, opts)
    case['mid'] = []            # the in-insert oracle knows left-to-right rows only
    return case


# ---- probe points inside an insert

INS1 = b'iaAIoOsSC'


def insert_body(atom):
    """(start, end) of the typed text of an insert/change command `[count] cmd text ESC`, or None"""
    if not atom.endswith(ESC) or len(atom) < 2:
        return None
    j = 0
    while j < len(atom) and atom[j:j + 1].isdigit():
        j += 1
    c = atom[j:j + 1]
    if c and c in INS1:
        s = j + 1
    elif c == b'c':
        m = j + 1
        while m < len(atom) and atom[m:m + 1].isdigit() and atom[m:m + 1] != b'0':
            m += 1
        if atom[m:m + 1] not in (b'w', b'c', b'$', b'b', b'e', b'j', b'k', b'0', b'l', b'G'):
            return None
        s = m + 1
    else:
        return None
    e = len(atom) - 1
    return (s, e) if s <= e else None


def mid_points(rng, atoms, per_atom):
    """[[atom index, byte offset inside the atom, newlines typed before the offset]]"""
    out = []
    for i, a in enumerate(atoms):
        be = insert_body(a)
        if not be:
            continue
        s, e = be
        legal = [o for o in range(s, e + 1) if not (0x80 <= a[o] <= 0xbf) and not any(x in (0x16, 0x0b, 0x12, 0x10) for x in a[s:o])]
        if not legal:
            continue
        want = {s, e}
        for o in legal:
            if a[o:o + 1] == b'\n' or (o > s and a[o - 1:o] == b'\n'):
                want.add(o)
        want = sorted(want & set(legal))
        extra = [o for o in legal if o not in want]
        if len(want) > per_atom:
            keep = [want[0], want[-1]]
            rest = want[1:-1]
            rng.shuffle(rest)
            want = sorted(keep + rest[:per_atom - 2])
        elif extra:
            rng.shuffle(extra)
            want = sorted(want + extra[:min(2, per_atom - len(want))])
        for o in want:
            out.append([i, o, a[s:o].count(b'\n')])
    return out


# --------------------------------------------------------------------------------------------
# running


def file_bytes(case):
    return ''.join(l + '\n' for l in case['lines']).encode('utf-8')


def run_keys(exe, case, keys, readback=(), timeout=20):
    env = {'EXINIT': case.get('exinit', '')}
    name = case.get('name', 'f')
    files = {name: file_bytes(case)}
    for k, v in (case.get('aux') or {}).items():          # helper scripts of the `:!sh say` / `:w !sh up` commands
        files[k] = v.encode('latin-1')
    r = vlib.run_vi(exe, keys, files=files, args=[name], readback=readback,
                    rows=case['rows'], cols=case['cols'], timeout=timeout, env=env)
    if r.timed_out or r.crashed():
        with SERIAL:                    # confirm alone, with a 3x longer limit
            r2 = vlib.run_vi(exe, keys, files=files, args=[name], readback=readback,
                             rows=case['rows'], cols=case['cols'], timeout=3 * timeout, env=env)
        return r2
    return r


SERIAL = __import__('threading').Lock()
QUIT = b':q!\n'
WRITE = b':w! out\n'


def atoms_bytes(case, i):
    return b''.join(bytes.fromhex(a) for a in case['atoms'][:i])


def probe_keys(case, pr):
    if pr[0] == 'cmd':
        return atoms_bytes(case, pr[1])
    return atoms_bytes(case, pr[1]) + bytes.fromhex(case['atoms'][pr[1]])[:pr[2]]


def run_probe(exe, case, pr):
    """the runs of one probe point: (A, B, T); B is None inside an insert"""
    p = probe_keys(case, pr)
    if pr[0] == 'cmd':
        a = run_keys(exe, case, p + QUIT)
        b = run_keys(exe, case, p + b'\x0c' + QUIT)
        for _ in range(3):
            # a program in which a child process writes to the terminal: both runs again if the two streams do not agree
            # on the output of the prefix (see streams_agree)
            if not child_writes(case) or any(r.timed_out or r.rc != 0 for r in (a, b)) or streams_agree(a.out, b.out):
                break
            with SERIAL:
                a = run_keys(exe, case, p + QUIT)
                b = run_keys(exe, case, p + b'\x0c' + QUIT)
        t = run_keys(exe, case, p + b'i' + MARK.encode() + ESC + WRITE + QUIT, readback=['out'])
        return a, b, t
    a = run_keys(exe, case, p + ESC + QUIT)
    t = run_keys(exe, case, p + MARK.encode() + ESC + WRITE + QUIT, readback=['out'])
    return a, None, t


def probes_of(case):
    out = [('cmd', i) for i in range(len(case['atoms']) + 1)]
    if case.get('only_mid'):
        out = [('cmd', i) for i in range(len(case['atoms']))]     # the last command is only probed inside its insert
    for m in case.get('mid', []):
        if m[0] < len(case['atoms']):
            out.append(('ins', m[0], m[1], m[2]))
    return out


def cuts(sa, sb, rows):
    """stream offsets of 'after the prefix' in run A and 'after the forced repaint' in run B: A = out(P) + out(:q!),
    B = out(P) + out(^L) + out(:q!); out(:q!) starts by addressing the message row and is the same in both"""
    cut = len(os.path.commonprefix([sa, sb]))
    e = sa.rfind(b'\x1b', 0, cut)
    if e >= 0 and not any(0x40 <= x <= 0x7e for x in sa[e + 2:cut]):
        cut = e                                     # the common prefix ended inside an escape sequence
    tail = sa[cut:]
    if tail and sb.endswith(tail):
        return cut, len(sb) - len(tail)
    k = sb.rfind(b'\x1b[%d;1H\x1b[K\r' % rows)
    return cut, (k if k >= 0 else len(sb))


def streams_agree(sa, sb):
    """do the streams of run A (P :q!) and run B (P ^L :q!) agree on out(P)?  They do not when a child process wrote to the
    terminal at another moment in one of them (`:!cmd`: cmd_pipe() forks first and writes term_done() afterwards -- the child's
    first bytes and that sequence race; harmless for the final screen, but the common prefix then ends inside out(P))"""
    cut = len(os.path.commonprefix([sa, sb]))
    e = sa.rfind(b'\x1b', 0, cut)
    if e >= 0 and not any(0x40 <= x <= 0x7e for x in sa[e + 2:cut]):
        cut = e
    return bool(sa[cut:]) and sb.endswith(sa[cut:])


def child_writes(case):
    return bool(case.get('aux'))


def cut_ins(sa, st):
    """inside an insert: A = out(P) + out(ESC ...), T = out(P) + out(@ ...).  The output of ESC starts with an absolute
    cursor address (vi_drawfix / the tail of vi()), the output of a typed character with CR (led_print on the current row)."""
    cut = len(os.path.commonprefix([sa, st]))
    e = sa.rfind(b'\x1b', 0, cut)
    if e >= 0 and not any(0x40 <= x <= 0x7e for x in sa[e + 2:cut]):
        cut = e
    while cut > 0 and cut < len(sa) and 0x80 <= sa[cut] <= 0xbf:
        cut -= 1
    return cut


def parse_snap(s):
    head, _, cells = s.partition('|')
    err, r, c, top, bot = [int(x) for x in head.split()]
    rows = [[int(v) for v in row.split(',')] for row in cells.split(';')]
    return {'err': err, 'r': r, 'c': c, 'top': top, 'bot': bot,
            'cp': [[norm_cp(v % ATTR_SHIFT) for v in row] for row in rows],
            'at': [[v // ATTR_SHIFT for v in row] for row in rows]}


def emulate(model, reqs):
    """reqs: [(rows, cols, stream bytes, [cuts])] -> [[snapshots]]"""
    lines = ['run %d %d %s %s' % (r, c, vlib.hx(s), ','.join(str(x) for x in cuts)) for r, c, s, cuts in reqs]
    if not lines:
        return []
    nchunk = min(16, max(1, len(lines) // 8))
    chunks = [lines[i::nchunk] for i in range(nchunk)]

    def one(ch):
        rc, out, err = vlib.run_lines(model, ch, timeout=900)
        if rc != 0 or len(out) != len(ch):
            raise RuntimeError('model_term failed: rc=%s %s' % (rc, err[-500:]))
        return out
    outs = vlib.pmap(one, chunks)
    res = [None] * len(lines)
    for k, out in enumerate(outs):
        for j, o in enumerate(out):
            res[k + j * nchunk] = [parse_snap(x) for x in o.split('#')]
    return res


def twin_state(t):
    """(buffer lines, xrow, xoff) from the twin run, or None"""
    data = t.files.get('out') if t.files else None
    if data is None:
        return None
    try:
        s = data.decode('utf-8')
    except UnicodeDecodeError:
        return None
    if s.count(MARK) != 1:
        return None
    lines = s.split('\n')
    if lines and lines[-1] == '':
        lines.pop()
    for i, l in enumerate(lines):
        j = l.find(MARK)
        if j >= 0:
            lines[i] = l[:j] + l[j + 1:]
            return lines, i, j
    return None


# --------------------------------------------------------------------------------------------
# window layout (vi_switch)

DIGITS = b'0123456789'


def win_cmd(atom):
    b = atom.lstrip(DIGITS)
    if len(b) == 2 and b[:1] == b'\x17':
        return b[1:]
    return None


def layout_after(case, i):
    """(split, active window id) after the first i commands: ^Ws splits (upper active), ^Wj/^Wk switch, ^Wx swaps the
    halves and the active id, ^Wo/^Wc return to one window"""
    split, act = False, 0
    for a in case['atoms'][:i]:
        k = win_cmd(bytes.fromhex(a))
        if k == b's' and not split:
            split, act = True, 0
        elif k in (b'j', b'k', b'x') and split:
            act = 1 - act
        elif k in (b'o', b'c') and split:
            split, act = False, 0
    return split, act


def files_after(case, i):
    """(file shown by the active window, file shown by the other one, the alternate file `#`) after the first i commands of a program
    with a second buffer: `:e name` / `:e #` change the active window's file, ^Ws copies it, ^Wj / ^Wk exchange the roles, ^Wx moves the
    windows but not the roles, ^Wo keeps the active one, ^Wc the other one"""
    af = of = case.get('name', 'f')
    alt = None
    split = False
    for a in case['atoms'][:i]:
        b = bytes.fromhex(a)
        k = win_cmd(b)
        if k == b's' and not split:
            split, of = True, af
        elif k in (b'j', b'k') and split:
            af, of = of, af
        elif k == b'o' and split:
            split = False
        elif k == b'c' and split:
            split, af = False, of
        elif b[:3] == b':e ' and b.endswith(b'\n'):
            name = b[3:-1].decode('latin-1')
            if name == '#':
                name = alt
            if name and name != af:
                alt, af = af, name
    return af, (of if split else af)


def geometry(rows, split, act):
    """((first row, text rows) of the active window, the same of the inactive one or None)"""
    if not split:
        return (0, rows - 1), None
    half = rows // 2            # vi_switch: window 0 = rows [0, half): half-1 text rows + its message row; window 1 the rest
    up, low = (0, half - 1), (half, rows - 1 - half)
    return (up, low) if act == 0 else (low, up)


def is_alt(atom, split_before):
    """does the command make the tail of vi() repaint the OTHER window (mod & VC_ALT)?"""
    b = atom.lstrip(DIGITS)
    if cancelled_prompt(atom):
        return False
    if b[:1] == b':':
        body = b[1:].split(b'\n')[0]
        return body not in (b'', b'w')
    if b == b'\x0c':
        return True
    k = win_cmd(atom)
    if k == b's':
        return not split_before
    return k in (b'j', b'k', b'x') and split_before


TD_Z = __import__('re').compile(rb'^(\d*)z([<>])$')
TD_SE = __import__('re').compile(r'se td=(-?\d+)')


def td_after(case, i):
    """the text direction option (xtd) after the first i commands: EXINIT / `:se td=N` set it, z> z< [2z> 2z<] set +1 -1 [+2 -2];
    nothing else does -- in particular no prompt, whether it is answered or cancelled (led_prompt edits its line under +2 and
    puts the old value back)"""
    td = 0
    for m in TD_SE.finditer(case.get('exinit', '')):
        td = int(m.group(1))
    for a in case['atoms'][:i]:
        b = bytes.fromhex(a)
        m = TD_Z.match(b)
        if m:
            td = 1 if m.group(2) == b'>' else -1
            if int(m.group(1) or b'0') > 1:
                td *= 2
        elif b[:1] == b':' and b.endswith(b'\n'):
            for m in TD_SE.finditer(b.split(b'\n')[0].decode('latin-1')):
                td = int(m.group(1))
    return td


def cancelled_prompt(atom):
    """a `:` `/` `?` prompt left with ESC or ^C: nothing is executed, nothing but the message row is drawn (mod = 0)"""
    return atom[:1] in (b':', b'/', b'?') and atom[-1:] in (ESC, b'\x03') and b'\n' not in atom


def view(st, off, h):
    """the emulator state seen from a window of h text rows starting at screen row off"""
    return {'cp': st['cp'][off:off + h], 'at': st['at'][off:off + h], 'r': st['r'] - off, 'c': st['c'], 'err': st['err']}


# --------------------------------------------------------------------------------------------
# the oracle


def renderable(buf):
    for l in buf:
        for ch in l:
            if ch == '\t' or ch in WIDE or ch in NARROW2 or is_ctl(ch) or ch in R2L or ch in HEBREW:
                continue
            if not (32 <= ord(ch) < 127):
                return False
    return True


def cursor_cells(buf, xrow, xoff):
    line = buf[xrow] if xrow < len(buf) else ''
    lay = layout(line)
    if not lay:
        return 0, 1
    if xoff >= len(lay):
        xoff = len(lay) - 1
    return lay[xoff][1], lay[xoff][2]


def check_at(st, buf, xrow, xoff, top, left, h, cols):
    """None if (i) and (ii) hold with this top/left, else which clause fails"""
    if window(buf, top, left, h, cols) != st['cp'][:h]:
        return 'rows'
    if not (top <= xrow < top + h):
        return 'cursor line outside the window'
    if st['r'] != xrow - top:
        return 'terminal cursor on another row than the cursor line'
    pos, wid = cursor_cells(buf, xrow, xoff)
    if not (pos <= cell_pos(buf, xrow, st['c'], left, cols) < pos + wid):
        return 'terminal cursor not on the cell of the cursor character'
    return None


def cell_pos(buf, xrow, c, left, cols):
    """the visual position (ren_position units) shown in terminal column c of the row of line xrow (vi_pos / led_pos inverted)"""
    line = buf[xrow] if xrow < len(buf) else ''
    return c + left if dir_context(line) >= 0 else left + cols - 1 - c


def maxwidth(buf):
    return max([0] + [sum(w for _, _, w in layout(l)) for l in buf]) + 2


def explain(st, buf, xrow, xoff, h, cols):
    """(verdict, top, left): verdict None = property holds for some top/left"""
    pos, wid = cursor_cells(buf, xrow, xoff)
    tops = []
    if xrow - st['r'] >= 0:
        tops.append(xrow - st['r'])
    lefts = [0]
    rtl = dir_context(buf[xrow] if xrow < len(buf) else '') < 0
    for c in ((pos + st['c'] + 1 - cols, pos + wid + st['c'] - cols) if rtl else (pos - st['c'], pos + wid - 1 - st['c'])):
        if c > 0 and c not in lefts:
            lefts.append(c)
    best = None
    for top in tops:
        for left in lefts:
            v = check_at(st, buf, xrow, xoff, top, left, h, cols)
            if v is None:
                return None, top, left
            if v != 'rows' and best is None:
                best = (v, top, left)
    # exhaustive search: is there any window at all?
    maxw = max(maxwidth(buf), st['c'] + pos + wid + cols)
    matches = []
    for left in range(0, maxw + 1):
        rend = {}
        for top in range(0, max(len(buf), 1)):
            ok = True
            for i in range(h):
                t = row_text(buf, top + i)
                if t not in rend:
                    rend[t] = render(t, left, cols)
                if rend[t] != st['cp'][i]:
                    ok = False
                    break
            if ok:
                v = check_at(st, buf, xrow, xoff, top, left, h, cols)
                if v is None:
                    return None, top, left
                if len(matches) < 200:
                    matches.append((top, left, v))
    st['matches'] = matches
    if matches:
        # prefer the explanation that gets furthest
        order = ['terminal cursor not on the cell of the cursor character', 'terminal cursor on another row than the cursor line', 'cursor line outside the window']
        matches.sort(key=lambda m: order.index(m[2]))
        return matches[0][2], matches[0][0], matches[0][1]
    return 'rows', None, None


STICKY = (b'j', b'k', b'\x05', b'\x19')


def is_sticky_atom(a):
    """commands after which the steering column xcol is not the cursor's own column: j k ^E ^Y keep the remembered
    column, n| sets the requested one"""
    b = a.lstrip(b'0123456789')
    return b in STICKY or b == b'|'


def lower_window_ok(rows_cp, buf, cols):
    """is the list of rows a window of buf for some top/left (no cursor involved)?"""
    hh = len(rows_cp)
    if hh == 0:
        return True
    maxw = maxwidth(buf)
    for left in range(0, maxw + 1):
        for top in range(0, max(len(buf), 1)):
            if window(buf, top, left, hh, cols) == rows_cp:
                return True
    return False


def explain_ins(st, buf, xrow, xoff, h, cols, k, hint_left=None):
    """the in-insert oracle on a window view.  buf/xrow/xoff: the text the screen should show and the insertion point.
    Returns (verdict or None, top, left of the untouched rows, left of the current row)."""
    r = st['r']
    if not (0 <= r < h):
        return 'insert mode: the terminal cursor is outside the text rows of the window', None, None, None
    top = xrow - r
    if top < 0:
        return 'insert mode: the terminal cursor is on another row than the line being typed', None, None, None
    lay = layout(buf[xrow])
    # the current row: some left explains the row and the terminal cursor
    cands = []
    if xoff == 0 or not lay:
        p0, w0 = (lay[0][1], lay[0][2]) if lay else (0, 1)
        for cell in range(p0, p0 + w0):
            cands.append((cell - st['c'], st['c']))         # (left, expected terminal column): on a cell of the first character
    else:
        pp, pw = lay[min(xoff, len(lay)) - 1][1:]
        ins = pp + pw                                       # the cell where the next character goes
        cands.append((ins - st['c'], st['c']))
        if st['c'] == cols - 1:
            cands.append((ins - cols, cols - 1))            # text ends exactly at the right margin: term_pos clamps
    leftc = None
    for lc, _ in cands:
        if lc < 0:
            continue
        if xoff > 0 and lay and not (lc <= lay[min(xoff, len(lay)) - 1][1] + lay[min(xoff, len(lay)) - 1][2] - 1 < lc + cols):
            continue                                        # the last typed character must be visible
        if render(buf[xrow], lc, cols) == st['cp'][r]:
            leftc = lc
            break
    if leftc is None:
        # is the row right for any left (then the cursor is wrong), or not at all?
        for lc in range(0, maxwidth(buf) + cols + 1):
            if render(buf[xrow], lc, cols) == st['cp'][r]:
                return 'insert mode: the terminal cursor is not on the cell where the next character goes', top, None, lc
        return 'insert mode: the row of the line being typed does not show that line', top, None, None
    # the other rows
    maxw = maxwidth(buf)
    common = None
    order = [x for x in (hint_left, leftc, 0) if x is not None] + list(range(0, maxw + 1))
    seen = set()
    span_bad = None
    other = [(i, top + i) for i in range(h) if i != r]
    for i, idx in other:
        if xrow - k <= idx < xrow:
            t = row_text(buf, idx)
            if not any(render(t, l, cols) == st['cp'][i] for l in range(0, maxw + 1)):
                span_bad = i
    if span_bad is not None:
        return 'insert mode: a row typed earlier in this insert does not show its line (row %d)' % span_bad, top, None, leftc
    fixed = [(i, idx) for i, idx in other if not (xrow - k <= idx < xrow)]
    for l in order:
        if l in seen:
            continue
        seen.add(l)
        if all(render(row_text(buf, idx), l, cols) == st['cp'][i] for i, idx in fixed):
            common = l
            break
    if common is None:
        return 'insert mode: the rows outside the lines being typed are not the window of the text around them', top, None, leftc
    return None, top, common, leftc


def judge(case, pr, runs, snaps, prev=None):
    """Evaluate the property at a probe point.  runs = (A, B, T); snaps = (state after P, state after the forced repaint or
    None); prev = the result dict of the probe point before the last command (split windows / inside an insert).
    Returns a dict: status 'ok' | 'skip' | 'fail'; what, observed, expected, top, left, st."""
    a, b, t = runs
    rows, cols = case['rows'], case['cols']
    ins = pr[0] == 'ins'
    i = pr[1]
    split, act = layout_after(case, i)
    (woff, h), inact = geometry(rows, split, act)
    REF.td = td_after(case, i)
    for r in (a, b, t):
        if r is None:
            continue
        if r.timed_out or r.rc != 0:
            return {'status': 'skip', 'what': 'run did not finish (rc=%s timeout=%s)' % (r.rc, r.timed_out)}
    tw = twin_state(t)
    if tw is None:
        return {'status': 'skip', 'what': 'twin run gave no unique cursor marker'}
    buf, xrow, xoff = tw
    st, st2 = snaps
    out = {'status': 'ok', 'buf': buf, 'xrow': xrow, 'xoff': xoff, 'st': st, 'split': split, 'act': act, 'td': REF.td}
    obuf = buf                  # the buffer of the OTHER window
    if case.get('file2'):
        texts = {case.get('name', 'f'): case['lines'], case['file2']['name']: case['file2']['lines']}
        af, of = files_after(case, i)
        if texts.get(af) != buf:
            return {'status': 'skip', 'what': 'two buffers: the active buffer is not the one the reference tracks'}
        obuf = texts[of]
        out['two_buffers'] = af != of
    if st['err'] or (st2 and st2['err']):
        out.update(status='fail', what='the stream contains a sequence the terminal model does not know, or text past the right margin',
                   observed={'errors': st['err'] + (st2['err'] if st2 else 0)}, expected={'errors': 0})
        return out
    if h < 1:
        return {'status': 'skip', 'what': 'window without text rows'}
    sv = view(st, woff, h)
    sv2 = view(st2, woff, h) if st2 else None
    # ---- the inactive window
    if split and inact and inact[1] > 0:
        ioff, ih = inact
        low = st['cp'][ioff:ioff + ih]
        last = bytes.fromhex(case['atoms'][i - 1]) if i else b''
        split_before, _ = layout_after(case, i - 1) if i else (False, 0)
        alt = (not ins) and is_alt(last, split_before)
        out['alt'] = alt
        if alt:
            if renderable(obuf) and not lower_window_ok(low, obuf, cols):
                out.update(status='fail', what='split windows: after a command that repaints both windows the rows of the inactive window are not a window of the buffer lines',
                           observed=[cells_str(r) for r in st['cp'][:rows]], expected='inactive window: rows [%d, %d) show consecutive buffer lines' % (ioff, ioff + ih))
                return out
            if st2 and low != st2['cp'][ioff:ioff + ih]:
                out.update(status='fail', what='split windows: a forced full repaint (^L) changes the rows of the inactive window',
                           observed=[cells_str(r) for r in low], expected=[cells_str(r) for r in st2['cp'][ioff:ioff + ih]])
                return out
        elif prev is not None and prev.get('status') in ('ok', 'fail') and prev.get('split') and prev.get('act') == act and prev.get('st'):
            was = prev['st']['cp'][ioff:ioff + ih]
            if low != was:
                out.update(status='fail', what='split windows: a command in the active window changed the rows of the inactive window',
                           observed=[cells_str(r) for r in low], expected=[cells_str(r) for r in was])
                return out
        if st2 and renderable(obuf) and not lower_window_ok(st2['cp'][ioff:ioff + ih], obuf, cols):
            out.update(status='fail', what='split windows: after a forced full repaint (^L) the rows of the inactive window are not a window of the buffer lines',
                       observed=[cells_str(r) for r in st2['cp'][:rows]], expected='inactive window: rows [%d, %d) show consecutive buffer lines' % (ioff, ioff + ih))
            return out
    # ---- inside an insert
    if ins:
        if not renderable(buf):
            return {'status': 'skip', 'what': 'text outside the reference renderer'}
        v, top, left, leftc = explain_ins(sv, buf, xrow, xoff, h, cols, pr[3], prev.get('left') if prev else None)
        out['top'], out['left'], out['leftc'] = top, left, leftc
        if v is not None:
            exp_top = top if top is not None else 0
            out.update(status='fail', what=v, observed={'rows': [cells_str(r) for r in sv['cp'][:h]], 'cursor': [sv['r'], sv['c']]},
                       expected={'rows': [cells_str(r) for r in window(buf, exp_top, 0, h, cols)], 'line being typed': xrow, 'insertion point (characters)': xoff})
        return out
    # ---- the active window, between commands
    if not renderable(buf):
        # reference rendering not trusted for this text: full-repaint comparison only
        if sv['cp'][:h] != sv2['cp'][:h]:
            out.update(status='fail', what='text rows differ from what a forced full repaint draws (stale or missing row)',
                       observed=[cells_str(r) for r in sv['cp'][:h]], expected=[cells_str(r) for r in sv2['cp'][:h]])
        return out
    v, top, left = explain(sv, buf, xrow, xoff, h, cols)
    out['top'], out['left'] = top, left
    if v is None:
        # (iii) a forced full repaint draws the same window with the same attributes; it may only choose another window
        # (the steering column is recomputed from the cursor) if that one satisfies (i) and (ii) as well
        if check_at(sv2, buf, xrow, xoff, top, left, h, cols) is None:
            # attributes are compared on the non-blank cells (how much of a blank, clipped row is highlighted depends on left)
            bad = [k for k in range(h) if any(a != b2 and c != 32 for a, b2, c in zip(sv['at'][k], sv2['at'][k], sv['cp'][k]))]
            if bad:
                out.update(status='fail', what='row attributes (highlighting) differ from what a forced full repaint draws: stale row(s) %s' % bad,
                           observed={'rows': bad}, expected={'rows': []})
        else:
            v2, top2, left2 = explain(sv2, buf, xrow, xoff, h, cols)
            if v2 is not None:
                out.update(status='fail', what='after a forced full repaint (^L): ' + v2,
                           observed={'rows': [cells_str(r) for r in sv2['cp'][:h]], 'cursor': [sv2['r'], sv2['c']]},
                           expected={'rows': [cells_str(r) for r in sv['cp'][:h]], 'cursor': [sv['r'], sv['c']]})
            else:
                out['repaint_moved_window'] = True
        return out
    # the property fails here: describe
    pre = 'split windows, active window rows [%d, %d): ' % (woff, woff + h) if split else ''
    if v == 'rows':
        what = pre + 'the text rows are not a window of the buffer lines (no top/left explains them)'
        exp_top = max(0, xrow - sv['r'])
        expected = [cells_str(r) for r in window(buf, exp_top, 0, h, cols)]
    else:
        what = pre + v
        expected = {'cursor_line': xrow, 'cursor_char_cells': list(cursor_cells(buf, xrow, xoff)), 'top': top, 'left': left}
    out.update(status='fail', what=what, observed={'rows': [cells_str(r) for r in sv['cp'][:h]], 'cursor': [sv['r'], sv['c']]}, expected=expected)
    return out


def snaps_of(model, case, pr, runs):
    a, b, t = runs
    rows, cols = case['rows'], case['cols']
    if pr[0] == 'cmd':
        cut, cutb = cuts(a.out, b.out, rows)
        sa, sb = emulate(model, [(rows, cols, a.out, [cut]), (rows, cols, b.out, [cutb])])
        return sa[0], sb[0]
    cut = cut_ins(a.out, t.out)
    sa, = emulate(model, [(rows, cols, a.out, [cut])])
    return sa[0], None


def prev_probe(case, pr):
    """the probe point whose state the inactive window is compared with"""
    if pr[0] == 'ins':
        return ('cmd', pr[1])
    return ('cmd', pr[1] - 1) if pr[1] > 0 else None


def eval_probe(exe, model, case, pr, need_prev=True):
    """run and judge one probe point alone (shrinking, replay)"""
    runs = run_probe(exe, case, pr)
    for r in runs:
        if r is not None and (r.timed_out or r.rc != 0):
            return {'status': 'skip', 'what': 'run did not finish'}
    prev = None
    pp = prev_probe(case, pr)
    if need_prev and pp is not None and (layout_after(case, pr[1])[0] or pr[0] == 'ins'):
        prev = eval_probe(exe, model, case, pp, need_prev=False)
    return judge(case, pr, runs, snaps_of(model, case, pr, runs), prev)


# --------------------------------------------------------------------------------------------


def keys_repr(case, i=None):
    atoms = case['atoms'] if i is None else case['atoms'][:i]
    return [bytes.fromhex(a).decode('latin-1').encode('unicode_escape').decode() for a in atoms]


def what_class(w):
    return w.split(':')[0] if not w.startswith(('split windows', 'insert mode')) else w.split('(')[0]


def sub_case(case, pr):
    """the case cut down to the probe point (which becomes its last one)"""
    c = dict(case)
    c.pop('_corpus', None)
    if pr[0] == 'cmd':
        c['atoms'] = case['atoms'][:pr[1]]
        c['mid'] = []
        return c, ('cmd', pr[1])
    c['atoms'] = case['atoms'][:pr[1] + 1]
    c['mid'] = [[pr[1], pr[2], pr[3]]]
    c['only_mid'] = True
    return c, pr


def shrink_case(exe, model, case, pr, what):
    """delta-debug the commands before the probe point (then the buffer lines) keeping the same failure class"""
    base, bpr = sub_case(case, pr)
    fixed = [] if pr[0] == 'cmd' else [base['atoms'][-1]]
    front = base['atoms'][:len(base['atoms']) - len(fixed)]

    def build(atoms, lines=None):
        c = dict(base)
        c['atoms'] = list(atoms) + fixed
        if lines is not None:
            c['lines'] = lines
        if pr[0] == 'ins':
            c['mid'] = [[len(atoms), pr[2], pr[3]]]
            return c, ('ins', len(atoms), pr[2], pr[3])
        return c, ('cmd', len(atoms))

    def fails(c, p):
        r = eval_probe(exe, model, c, p)
        return r['status'] == 'fail' and what_class(r['what']) == what_class(what)
    try:
        if len(front) >= 2:
            f2 = vlib.shrink(front, lambda at: fails(*build(at)), max_steps=80)
            if f2 and fails(*build(f2)):
                front = f2
        elif len(front) == 1 and fixed and fails(*build([])):
            front = []
        base, bpr = build(front)
        if len(base['lines']) > 1:
            l2 = vlib.shrink(base['lines'], lambda ls: fails(*build(front, ls)), max_steps=60)
            if l2 and fails(*build(front, l2)):
                base, bpr = build(front, l2)
    except Exception:
        pass
    return base, bpr


def classify(case, pr, r, prev):
    """narrow classifiers of the findings recorded in KNOWN_FINDINGS.txt; None = not a known root cause.  No open finding at
    present: the earlier ones (yank columns, empty change, sticky left, failed ex command, hll after deleting through the last
    line, insert mode leaving another xleft, same-count change starting above the window) are repaired in /repo; their inputs are corpus cases that must pass.
    The ninth and tenth (j / k with a remembered column onto a line with a run shown in the other direction: terminal cursor and acting offset on
    different characters; the xleft rule not applied before the first paint) were found by the rtl stream and are repaired too (216c15e, 11b9bf2);
    inputs in corpus/C19-sticky-reorder.json, corpus/C19-initial-left.json."""
    return None


def report(res, exe, model, case, pr, r, prev=None):
    kf = classify(case, pr, r, prev)
    if kf is not None:
        small, spr = sub_case(case, pr)
        v = {'what': r['what'], 'input': {'case': small, 'keys': keys_repr(small)}, 'expected': r.get('expected'), 'observed': r.get('observed')}
        if not res.violation(v, kf=kf):
            return False
    small, spr = shrink_case(exe, model, case, pr, r['what'])
    r2 = eval_probe(exe, model, small, spr)
    if r2['status'] != 'fail':
        (small, spr), r2 = sub_case(case, pr), r
    keys = keys_repr(small)
    if spr[0] == 'ins':
        keys[-1] = bytes.fromhex(small['atoms'][-1])[:spr[2]].decode('latin-1').encode('unicode_escape').decode() + '   <- still in insert mode here'
    v = {'what': r2['what'],
         'input': {'case': small, 'keys': keys, 'window': '%dx%d' % (small['rows'], small['cols']),
                   'replay': 'LINES=%d COLUMNS=%d EXINIT=%r vi -v %s < keys (file = lines joined by newline)' % (small['rows'], small['cols'], small.get('exinit', ''), small.get('name', 'f'))},
         'expected': r2.get('expected'), 'observed': r2.get('observed'),
         'buffer': r2.get('buf'), 'cursor': [r2.get('xrow'), r2.get('xoff')]}
    return res.violation(v, kf=None)


def corpus_cases():
    d = os.path.join(vlib.VERIF, 'corpus')
    out = []
    if os.path.isdir(d):
        for fn in sorted(os.listdir(d)):
            if fn.startswith('C19-') and fn.endswith('.json'):
                c = json.load(open(os.path.join(d, fn)))
                c['_corpus'] = fn
                out.append(c)
    return out


def run(ctx):
    res = ctx.res
    rng = ctx.rng
    exe = vlib.build_vi()
    model = ctx.model('term')
    if not model:
        return
    res.rule = ('one evaluation = one probe point (key program prefix -- between two commands or inside an insert --, window size, buffer): emulator state of '
                'the real stream vs the buffer/cursor of the twin run, plus the forced-repaint comparison; non-trivial = the prefix ends in a scroll, an edit, an '
                'undo/redo, an ex command, an insert, inside an insert, or the window is not at top 0 / left 0; distinct = distinct (window, buffer, keys)')
    cases = []
    if ctx.replay:
        rp = json.load(open(ctx.replay))
        c = rp.get('input', {}).get('case')
        if c:
            cases.append(c)
    else:
        cases += corpus_cases()
        ng, na, ns = (NQUICK, NAIMED, NSPLIT) if ctx.quick else (2600, 1000, 400)
        nx, nr = (NSPLITEX, NRTL) if ctx.quick else (300, 400)
        for k in range(ng):
            cases.append(gen_case(rng.fork('case%d' % k), ctx.quick, k))
        for k in range(na):
            cases.append(gen_aimed(rng.fork('aimed%d' % k), ctx.quick, k))
        if SPLIT:
            for k in range(ns):
                cases.append(gen_split(rng.fork('split%d' % k), ctx.quick, k))
            for k in range(nx):
                cases.append(gen_splitex(rng.fork('splitex%d' % k), ctx.quick, k))
        for k in range(nr):
            cases.append(gen_rtl(rng.fork('rtl%d' % k), ctx.quick, k))
    # all runs of all probe points
    jobs = [(ci, pr) for ci, c in enumerate(cases) for pr in probes_of(c)]
    runs = vlib.pmap(lambda j: run_probe(exe, cases[j[0]], j[1]), jobs)
    reqs = []
    idx = []
    for (ci, pr), (a, b, t) in zip(jobs, runs):
        c = cases[ci]
        if any(r is not None and (r.timed_out or r.rc != 0) for r in (a, b)):
            idx.append(None)
            continue
        idx.append(len(reqs))
        if pr[0] == 'cmd':
            cut, cutb = cuts(a.out, b.out, c['rows'])
            reqs.append((c['rows'], c['cols'], a.out, [cut]))
            reqs.append((c['rows'], c['cols'], b.out, [cutb]))
        else:
            reqs.append((c['rows'], c['cols'], a.out, [cut_ins(a.out, t.out)]))
    snaps = emulate(model, reqs)
    failed_cases = set()
    results = {}
    order = sorted(range(len(jobs)), key=lambda n: (jobs[n][0], jobs[n][1][1], 0 if jobs[n][1][0] == 'cmd' else 1, jobs[n][1][2:]))
    for n in order:
        (ci, pr), rr, k = jobs[n], runs[n], idx[n]
        c = cases[ci]
        i = pr[1]
        res.evaluations += 1
        if k is None:
            r = {'status': 'skip', 'what': 'run did not finish'}
        else:
            sn = (snaps[k][0], snaps[k + 1][0]) if pr[0] == 'cmd' else (snaps[k][0], None)
            pp = prev_probe(c, pr)
            r = judge(c, pr, rr, sn, results.get((ci, pp)) if pp else None)
        results[(ci, pr)] = r
        last = bytes.fromhex(c['atoms'][i - 1]) if i else b''
        res.count('window %dx%d' % (c['rows'], c['cols']) if (c['rows'], c['cols']) in ((2, 2), (24, 80)) else 'window other')
        res.count('buffer ' + ('empty' if not c['lines'] else 'shorter' if len(c['lines']) < c['rows'] - 1 else 'longer-or-equal'))
        res.count('profile ' + c.get('profile', '?').split('-')[0])
        if r['status'] == 'skip':
            res.count('skipped: ' + r['what'][:40])
            continue
        if pr[0] == 'ins':
            res.count('probe points inside an insert')
            if pr[3]:
                res.count('probe points inside an insert after a typed newline')
            if r.get('leftc'):
                res.count('probe points inside an insert with the current row scrolled horizontally')
            res.nontriv((c['rows'], c['cols'], tuple(c['lines']), tuple(c['atoms'][:i]), pr[2]))
        elif i and (r.get('top') or r.get('left') or not is_plain_motion(last)):
            res.nontriv((c['rows'], c['cols'], tuple(c['lines']), tuple(c['atoms'][:i])))
        if pr[0] == 'cmd' and i:
            kind = atom_kind(last)
            if kind:
                res.count('state right after ' + kind)
                if r.get('left'):
                    res.count('state right after an edit with left > 0' if kind != 'a scroll' else 'state right after a scroll with left > 0')
        if r.get('split'):
            res.count('split: probe points with two windows')
            if r.get('act') == 1:
                res.count('split: lower window active')
            if r.get('alt'):
                res.count('split: inactive window judged after a both-window repaint')
            if r.get('two_buffers'):
                res.count('split: the two windows show different buffers')
        if r.get('left'):
            res.count('states with left > 0')
        if r.get('buf') and r.get('top') is not None:
            (_, hh), _ = geometry(c['rows'], r.get('split'), r.get('act'))
            vis = r['buf'][r['top']:r['top'] + hh]
            if any(is_ctl(ch) for l in vis for ch in l):
                res.count('states with a control character on a visible line')
                xr, xo = r.get('xrow', 0), r.get('xoff', 0)
                if xr < len(r['buf']) and CTL_DEL in r['buf'][xr][:xo]:
                    res.count('states with a DEL left of the cursor on the cursor line')
        if r.get('repaint_moved_window'):
            res.count('forced repaint chose another (valid) window')
        if r.get('top'):
            res.count('states with top > 0')
        if r['status'] == 'fail' and ci not in failed_cases:
            pp = prev_probe(c, pr)
            failed_cases.add(ci)        # first failing probe point of a program only (the stale column of a known finding persists)
            report(res, exe, model, c, pr, r, results.get((ci, pp)) if pp else None)
    for key in list(results)[:600:97]:
        ci, pr = key
        r = results[key]
        res.sample({'window': '%dx%d' % (cases[ci]['rows'], cases[ci]['cols']), 'keys': keys_repr(cases[ci], pr[1]), 'probe': list(pr), 'status': r['status'],
                    'top': r.get('top'), 'left': r.get('left')})
    res.extra['programs'] = len(cases)
    res.extra['states'] = len(jobs)
    if WFIX:
        wfix_correspondence(ctx, model, cases, results)
        put_correspondence(ctx, model, cases, results)
        region_correspondence(ctx, exe, model, cases, results)
        dir_correspondence(ctx, model, cases, results)


def is_reinit(a):
    """does the command hand the terminal over and take it back (term_done(); term_init();)?"""
    b = a.lstrip(DIGITS)
    return b == b'\x0c' or b[:2] == b':!'


def region_correspondence(ctx, exe, model, cases, results):
    """model vs code: the scroll region of the emulator after the real stream equals the region the model of term.c's output
    side (coq/TermOutDefs.v: term_window, and term_done(); term_init() after a ^L / `:!cmd`) leaves on the emulator for the
    text rows of the active window -- at every probe point (between commands, inside inserts, after the forced repaint).
    One-row windows are skipped (a one-line region is ignored by the terminal).  A disagreement is followed by a search for
    a key continuation on which the oracle fails (an insert that opens a line on the bottom row, scrolls)."""
    res = ctx.res
    want = {}
    keys = []
    for (ci, pr), r in results.items():
        if r.get('status') not in ('ok', 'fail') or 'st' not in r:
            continue
        c = cases[ci]
        (woff, h), _ = geometry(c['rows'], r.get('split'), r.get('act'))
        if h < 2:
            continue
        i = pr[1]
        last = bytes.fromhex(c['atoms'][i - 1]) if (pr[0] == 'cmd' and i) else b''
        k = (c['rows'], c['cols'], woff, h, 1 if is_reinit(last) else 0)
        keys.append((ci, pr, k))
        want.setdefault(k, None)
    if not keys:
        return
    ks = sorted(want)
    rc, out, err = vlib.run_lines(model, ['region %d %d %d %d %d 0' % k for k in ks], timeout=300)
    if rc != 0 or len(out) != len(ks):
        res.disagree({'what': 'model_term region requests failed', 'stderr': err[-500:]})
        return
    for k, o in zip(ks, out):
        w = o.split()
        want[k] = (int(w[0]), int(w[1]))
        if int(w[2]):
            res.disagree({'what': 'the emulator does not know a sequence the term.c output model writes', 'model': o})
    bad = []
    for ci, pr, k in keys:
        r = results[(ci, pr)]
        res.count('scroll region correspondence cases' + (' right after a re-initialisation (^L, :!cmd)' if k[4] else ''))
        got = (r['st']['top'], r['st']['bot'])
        if got != want[k]:
            bad.append((ci, pr, k, got))
    # the states after a re-initialisation that are followed (no window command between) by an insert on the bottom row
    for ci, c in enumerate(cases):
        seen = False
        for i, a in enumerate(c['atoms']):
            ab = bytes.fromhex(a)
            if is_reinit(ab):
                seen = True
            elif win_cmd(ab):
                seen = False
            elif seen and insert_body(ab) and b'\n' in ab[:-1] + (b'\n' if ab.lstrip(DIGITS)[:1] in (b'o',) else b''):
                p = results.get((ci, ('cmd', i)))
                (woff, h), _ = geometry(c['rows'], p.get('split'), p.get('act')) if p else ((0, 0), None)
                if p and p.get('st') and p.get('status') == 'ok' and p['st']['r'] - woff == h - 1:
                    res.count('an insert that opens a line on the bottom text row after a re-initialisation of the terminal')
    if not bad:
        return
    bad.sort(key=lambda x: (x[0], x[1][1], 0 if x[1][0] == 'cmd' else 1))
    ci, pr, k, got = bad[0]
    c = cases[ci]
    # search harder: continuations that depend on the bottom margin of the region
    found = 0
    tried = set()
    for ci2, pr2, k2, got2 in bad[:40]:
        if pr2[0] != 'cmd' or (ci2, pr2[1]) in tried or found >= 2 or len(tried) >= 6:
            continue
        tried.add((ci2, pr2[1]))
        base, _ = sub_case(cases[ci2], pr2)
        for cont in ([b'L', b'oq' + ESC], [b'G', b'oq' + ESC], [b'L', b'Aq\nr' + ESC], [b'L', b'3\x05'], [b'H', b'2\x19'], [b'L', b'dd'], [b'H', b'Oq' + ESC]):
            c2 = dict(base)
            c2['atoms'] = base['atoms'] + [x.hex() for x in cont]
            c2['mid'] = []
            c2['profile'] = 'region-search'
            hit = False
            for j in range(len(base['atoms']) + 1, len(c2['atoms']) + 1):
                r2 = eval_probe(exe, model, c2, ('cmd', j))
                res.evaluations += 1
                if r2['status'] == 'fail':
                    report(res, exe, model, c2, ('cmd', j), r2)
                    found += 1
                    hit = True
                    break
            if hit:
                break
    res.disagree({'what': 'the scroll region of the terminal after the real stream differs from the region the term.c output model (TermOutDefs.v) sets for the text rows of the active window',
                  'input': {'case': sub_case(c, pr)[0], 'keys': keys_repr(c, pr[1] + (1 if pr[0] == 'ins' else 0)), 'probe': list(pr), 'request': 'region %d %d %d %d %d 0' % k},
                  'implementation': list(got), 'model': list(want[k]), 'states that disagree': len(bad), 'violating continuations found': found})


def prompt_atom(a):
    """the keys typed at a `:` `/` `?` prompt (first line of the atom, with the key that ends it), or None"""
    if a[:1] not in (b':', b'/', b'?') or len(a) < 2:
        return None
    for j in range(1, len(a)):
        if a[j] in (10, 13, 27, 3):
            return a[1:j + 1]
    return a[1:]


def dir_correspondence(ctx, model, cases, results):
    """model vs code (coq/DrawDirDefs.v, DrawSplitDefs.v, extracted):
    * led_prompt on the keys typed at every `:` `/` `?` prompt of the rtl programs leaves the td the states are judged under
      (td_after) and says `answered` exactly for the prompts that end with Enter;
    * every visible row of the active window in the states of the rtl programs equals render_row (dir_context under that td,
      led_pos, the cell array of led_render) of its line -- positions and widths from the reference layout --, and the
      terminal cursor is in the column vi_pos gives;
    * geom (vi_switch) gives the rows of the active window that the emulator's scroll region has after the real stream."""
    res = ctx.res
    reqs, meta = [], []
    for ci, c in enumerate(cases):
        if c.get('profile') != 'rtl':
            continue
        for i, a in enumerate(c['atoms']):
            ab = bytes.fromhex(a)
            keys = prompt_atom(ab)
            if keys is None:
                continue
            reqs.append('prompt %d %s' % (td_after(c, i), vlib.hx(keys)))
            meta.append(('prompt', ci, i, td_after(c, i), 0 if cancelled_prompt(ab) or keys[-1:] not in (b'\n', b'\r') else 1))
    for (ci, pr), r in results.items():
        c = cases[ci]
        if pr[0] != 'cmd' or r.get('status') != 'ok' or r.get('top') is None or r.get('left') is None or 'st' not in r:
            continue
        if r.get('split'):
            (woff, h), _ = geometry(c['rows'], True, r.get('act'))
            reqs.append('geom %d 2 %d' % (c['rows'], r.get('act')))
            meta.append(('geom', ci, pr, (woff, h), (r['st']['top'], r['st']['bot'])))
        if c.get('profile') != 'rtl':
            continue
        REF.td = r.get('td', 0)
        (woff, h), _ = geometry(c['rows'], r.get('split'), r.get('act'))
        buf, top, left, cols = r['buf'], r['top'], r['left'], c['cols']
        for k in range(h):
            line = row_text(buf, top + k)
            if any(ch == '\t' or ch in WIDE or is_ctl(ch) for ch in line):
                continue
            lay = layout(line)
            hi = 1 if line and ord(line[0]) >= 0x80 else 0
            m = -1 if line[:1] and line[0] in R2L else 1 if line[:1] and line[0].isascii() and (line[0].isalnum() or line[0] == '_') else 0
            cur, xo = -1, -1
            if top + k == r['xrow'] and top + k < len(buf) and lay:
                pos, wid = cursor_cells(buf, r['xrow'], r['xoff'])
                cur = pos if wid == 1 else -1
                if all(w == 1 for _, _, w in lay) and cur >= 0:
                    xo = min(r['xoff'], len(lay) - 1)       # the model computes the cursor position from the offset (cursor_pos)
            reqs.append('row %d %d %d %d %d %s %d %d' % (REF.td, left, cols, hi, m, ';'.join('%d,%d,%d' % (p, w, cell_of(ch)) for ch, p, w in lay) or '-', max(cur, 0), xo))
            meta.append(('row', ci, pr, k, cur, r['st']['cp'][woff + k], r['st']['c'], dir_context(line)))
    if not reqs:
        return
    rc, out, err = vlib.run_lines(model, reqs, timeout=300)
    if rc != 0 or len(out) != len(reqs):
        res.disagree({'what': 'model_term prompt/row/geom requests failed', 'stderr': err[-500:]})
        return
    bad = 0
    for m, o, q in zip(meta, out, reqs):
        if m[0] == 'prompt':
            _, ci, i, td, answered = m
            res.count('led_prompt correspondence cases' + ('' if answered else ' (cancelled prompt)'))
            if o != '%d %d' % (td, answered):
                bad += 1
                if bad <= 3:
                    res.disagree({'what': 'the td / answer after a prompt differs from the led_prompt model', 'input': {'case': cases[ci], 'keys': keys_repr(cases[ci], i + 1), 'request': q},
                                  'implementation': '%d %d' % (td, answered), 'model': o})
        elif m[0] == 'geom':
            _, ci, pr, (woff, h), (rt, rb) = m
            res.count('vi_switch geometry correspondence cases')
            if o != '%d %d' % (woff, h) or (h >= 2 and (rt, rb) != (woff, woff + h)):
                bad += 1
                if bad <= 3:
                    res.disagree({'what': 'the rows of the active window (scroll region after the real stream) differ from the geometry model of vi_switch', 'input': {'case': sub_case(cases[ci], pr)[0], 'keys': keys_repr(cases[ci], pr[1]), 'request': q},
                                  'implementation': [rt, rb], 'model': o})
        else:
            _, ci, pr, k, cur, seen, col, pdir = m
            head, _, mcol = o.partition('|')
            d, _, cells = head.partition(' ')
            want = [32 if v == '-1' else int(v) for v in cells.split(',')] if cells else []
            res.count('row layout correspondence rows (render_row)' + (' with base direction -1' if int(d) < 0 else ''))
            ok = want == list(seen) and int(d) == pdir and (cur < 0 or int(mcol) == col)
            if cur >= 0:
                res.count('cursor cell correspondence cases (vi_pos)' + (' with base direction -1' if int(d) < 0 else ''))
            if not ok:
                bad += 1
                if bad <= 3:
                    res.disagree({'what': 'a row of the window / the terminal cursor column differs from render_row / vi_pos of the text-direction model', 'input': {'case': sub_case(cases[ci], pr)[0], 'keys': keys_repr(cases[ci], pr[1]), 'request': q, 'row': k},
                                  'implementation': {'row': cells_str(seen), 'cursor column': col}, 'model': o})


def atom_kind(a):
    b = a.lstrip(DIGITS)
    if not b:
        return None
    if insert_body(a):
        return 'an insert or change' + (' with typed newlines' if b'\n' in a else '')
    if cancelled_prompt(a):
        return 'a cancelled prompt'
    if b[:1] == b':':
        return 'an ex command line'
    if b in (b'u', b'uu'):
        return 'an undo'
    if b == b'\x12' or b == b'u\x12':
        return 'a redo'
    if put_cmd(a):
        return 'a put'
    if b == b'J':
        return 'a join'
    if b[:1] in (b'd', b'x', b'X', b'D'):
        return 'a delete'
    if b[:1] in (b'\x05', b'\x19', b'\x04', b'\x15', b'\x06', b'\x02', b'z'):
        return 'a scroll'
    if win_cmd(a):
        return 'a window command'
    return None


PUT_RE = __import__('re').compile(rb'^(?:(\d*)("[a-z])?|("[a-z])?(\d*))([pP])$')


def put_cmd(a):
    """(register name or None, count, b'p' | b'P') of a put command `["x][count]p`, else None"""
    m = PUT_RE.match(a)
    if not m:
        return None
    cnt = m.group(1) or m.group(4) or b''
    reg = m.group(2) or m.group(3)
    return (reg[1:] if reg else None), max(1, int(cnt or b'1')), m.group(5)


def is_plain_motion(a):
    b = a.lstrip(b'0123456789')
    return b[:1] in (b'h', b'j', b'k', b'l', b'w', b'b', b'e', b'0', b'$', b'^', b'G', b'+', b'-', b'\n', b'W', b'B', b'E', b'|') and len(b) == 1


def wfix_correspondence(ctx, model, cases, results):
    """model vs code: for a plain motion the new top/left follow from the old ones by vi_wfix / the xleft rule of coq/DrawDefs.v"""
    res = ctx.res
    lines = []
    meta = []
    for (ci, pr), r in results.items():
        i = pr[1]
        if pr[0] != 'cmd' or i == 0 or r['status'] != 'ok' or r.get('top') is None:
            continue
        p = results.get((ci, ('cmd', i - 1)))
        if not p or p['status'] != 'ok' or p.get('top') is None or p.get('td') != r.get('td'):
            continue
        REF.td = r.get('td', 0)
        c = cases[ci]
        last = bytes.fromhex(c['atoms'][i - 1])
        if not is_plain_motion(last):
            continue
        (woff, h), _ = geometry(c['rows'], r.get('split'), r.get('act'))
        if (p.get('split'), p.get('act')) != (r.get('split'), r.get('act')):
            continue
        cols = c['cols']
        # the found top/left must be the only explanation on both sides (blank screens are ambiguous)
        if not unique_window(p, woff, h, cols) or not unique_window(r, woff, h, cols):
            continue
        pos, wid = cursor_cells(r['buf'], r['xrow'], r['xoff'])
        lines.append('wfix %d %d %d %d %d %d %d' % (h, cols, p['top'], p['left'], r['xrow'], len(r['buf']), pos))
        meta.append((ci, i, r))
    if not lines:
        return
    rc, out, err = vlib.run_lines(model, lines, timeout=300)
    if rc != 0 or len(out) != len(lines):
        res.disagree({'what': 'model_term wfix requests failed', 'stderr': err[-500:]})
        return
    for (ci, i, r), o, l in zip(meta, out, lines):
        res.count('vi_wfix/xleft correspondence cases')
        want = '%d %d' % (r['top'], r['left'])
        if o != want:
            res.disagree({'what': 'new top/left after a motion differ from the vi_wfix / xleft model', 'input': {'case': cases[ci], 'keys': keys_repr(cases[ci], i), 'request': l},
                          'implementation': want, 'model': o})


def put_candidates(before, xrow, xoff, after, cnt, cmd):
    """how a put `[cnt]p` / `[cnt]P` with the cursor at (xrow, xoff) of `before` can have produced `after`:
    [('l', insertion row, register text)] (line-wise) and [('c', xrow, pref, post, register text)] (character-wise)"""
    out = []
    if not before or xrow >= len(before):
        return out
    # line-wise: whole lines inserted before row ir
    ir = xrow + (1 if cmd == b'p' else 0)
    m = len(after) - len(before)
    if m >= 1 and m % cnt == 0 and after[:ir] == before[:ir] and after[ir + m:] == before[ir:]:
        ins = after[ir:ir + m]
        one = ins[:m // cnt]
        if one * cnt == ins:
            out.append(('l', ir, ''.join(l + '\n' for l in one)))
    # character-wise: the cursor line cut at off = ren_noeol(ln, xoff) + (p on a non-empty line)
    line = before[xrow]
    off = min(xoff, max(len(line) - 1, 0)) + (1 if cmd == b'p' and line else 0)
    pref, post = line[:off], line[off:] + '\n'
    m = len(after) - len(before) + 1
    if m >= 1 and after[:xrow] == before[:xrow] and after[xrow + m:] == before[xrow + 1:]:
        joined = ''.join(l + '\n' for l in after[xrow:xrow + m])
        if len(joined) > len(pref) + len(post) and joined.startswith(pref) and joined.endswith(post):
            mid = joined[len(pref):len(joined) - len(post)]
            if len(mid) % cnt == 0 and mid[:len(mid) // cnt] * cnt == mid:
                out.append(('c', xrow, pref, post, mid[:len(mid) // cnt]))
    return out


def put_correspondence(ctx, model, cases, results):
    """model vs code: for a put command `["x][count]p|P` the extracted vc_put / vi_drawfix of coq/DrawPutDefs.v, DrawDefs.v
    (text handed to lbuf_edit, lines it is cut into, vi_drawfix(r1, r2, n), the partial redraw applied to the rows that
    were on the screen) predict the lines that appear in the buffer and the rows the terminal shows afterwards.  Rows are
    abstract for the model (integer ids of rendered rows).  Judged when the window did not move (same top/left)."""
    res = ctx.res
    lines, meta = [], []
    for (ci, pr), r in results.items():
        i = pr[1]
        if pr[0] != 'cmd' or i == 0 or r['status'] not in ('ok', 'fail') or 'st' not in r or r.get('buf') is None:
            continue
        c = cases[ci]
        pc = put_cmd(bytes.fromhex(c['atoms'][i - 1]))
        if not pc:
            continue
        p = results.get((ci, ('cmd', i - 1)))
        if not p or p['status'] != 'ok' or p.get('top') is None or p.get('left') is None or p.get('td') != r.get('td'):
            continue
        REF.td = r.get('td', 0)
        if (p.get('split'), p.get('act')) != (r.get('split'), r.get('act')) or not renderable(r['buf']) or not renderable(p['buf']):
            continue
        (woff, h), _ = geometry(c['rows'], r.get('split'), r.get('act'))
        cols = c['cols']
        top, left = p['top'], p['left']
        if r['status'] == 'ok':
            if (r.get('top'), r.get('left')) != (top, left):
                continue            # vi_wfix / the xleft rule moved the window: the tail of vi() repainted
        else:
            # a state the oracle rejects: compare it with the model too if the cursor stayed inside the old window
            pos, wid = cursor_cells(r['buf'], r['xrow'], r['xoff'])
            if 'not a window' not in r.get('what', '') or not (top <= r['xrow'] < top + h) or not (left <= pos and pos + wid <= left + cols):
                continue
        if not unique_window(p, woff, h, cols):
            continue
        _, cnt, cmd = pc
        cands = put_candidates(p['buf'], p['xrow'], p['xoff'], r['buf'], cnt, cmd)
        if not cands:
            res.count('vc_put correspondence: put not explained by one register (failed put, empty register, empty buffer)')
            ex = res.extra.setdefault('put_not_explained_examples', [])
            if len(ex) < 12 and p['buf'] != r['buf']:
                ex.append({'keys': keys_repr(c, i), 'cursor before': [p['xrow'], p['xoff']], 'before': p['buf'][max(0, p['xrow'] - 1):p['xrow'] + 2],
                           'after': r['buf'][max(0, p['xrow'] - 1):p['xrow'] + 6]})
            continue
        ids = {}
        idof = lambda row: ids.setdefault(tuple(row), len(ids))
        olds = [idof(x) for x in p['st']['cp'][woff:woff + h]]
        news = [idof(render(row_text(r['buf'], top + k), left, cols)) for k in range(h)]
        seen = [idof(x) for x in r['st']['cp'][woff:woff + h]]
        hxs = lambda t: vlib.hx(t.encode('utf-8'))
        for cd in cands:
            if cd[0] == 'l':
                req = 'put l %d %d %d %d - - %s' % (h, top, cd[1], cnt, hxs(cd[2]))
            else:
                req = 'put c %d %d %d %d %s %s %s' % (h, top, cd[1], cnt, hxs(cd[2]), hxs(cd[3]), hxs(cd[4]))
            lines.append(req + ' %s %s' % (','.join(map(str, olds)), ','.join(map(str, news))))
            meta.append((ci, i, cd, seen, r))
    if not lines:
        return
    rc, out, err = vlib.run_lines(model, lines, timeout=300)
    if rc != 0 or len(out) != len(lines):
        res.disagree({'what': 'model_term put requests failed', 'stderr': err[-500:]})
        return
    verdicts = {}
    for (ci, i, cd, seen, r), o, l in zip(meta, out, lines):
        head, _, rows = o.partition('|')
        w = head.split(' ')
        mlines = [vlib.unhx(x).decode('utf-8', 'replace') for x in w[3].split(',')] if len(w) > 3 and w[3] else []
        r1, n = int(w[0]), int(w[2])
        buf = r['buf']
        want_lines = buf[r1:r1 + len(mlines)]
        want_n = len(mlines) + (1 if cd[0] == 'l' else 0)
        ok = mlines == want_lines and n == want_n and [int(x) for x in rows.split(',')] == seen
        verdicts.setdefault((ci, i), []).append((ok, cd, l, o, seen))
    for (ci, i), vs in verdicts.items():
        res.count('vc_put/vi_drawfix correspondence cases')
        cd = vs[0][1]
        reg = cd[2] if cd[0] == 'l' else cd[4]
        cnt = put_cmd(bytes.fromhex(cases[ci]['atoms'][i - 1]))[1]
        if cd[0] == 'c' and '\n' in reg:
            res.count('vc_put correspondence: character-wise register with newlines' + (', count >= 2' if cnt > 1 else ''))
        elif cd[0] == 'l' and cnt > 1:
            res.count('vc_put correspondence: line-wise register, count >= 2')
        if any(v[0] for v in vs):
            continue
        ok, cd, l, o, seen = vs[0]
        res.disagree({'what': 'the rows shown after a put differ from vi_drawfix applied with the arguments of the vc_put model (or the lines / line count differ)',
                      'input': {'case': cases[ci], 'keys': keys_repr(cases[ci], i), 'request': l, 'explanation': list(cd)},
                      'implementation': ','.join(map(str, seen)), 'model': o})


def unique_window(r, woff, h, cols):
    buf, st = r['buf'], r['st']
    n = 0
    for left in {0, r['left'], r['left'] + 1, max(0, r['left'] - 1)}:
        for top in range(0, max(len(buf), 1)):
            if window(buf, top, left, h, cols) == st['cp'][woff:woff + h]:
                n += 1
    return n == 1
