"""C13 -- search lands on the first match after / the last match before the cursor, no wrap.

Implementation side: the real binary in vi mode.  keys = go to the start position, the search
commands (/pat<CR> ?pat<CR> n N ^A with counts, optional line offset), then a marker inserted at
the cursor and :w! out.  Model side: the extracted coq/SearchDefs.v (lbuf_search, vi_search,
re_read, vi_curword, ren_noeol) instantiated with its reference matcher.  Oracle: the property
evaluated in Python with `re` on translated patterns, every match judged against the WHOLE line.
"""
import json, re
import vlib

GROUP = 'search'
TRUSTED = ['Python 3 `re` on translated patterns (subset: literals, ^ $ \\< \\> . classes x*) as the independent reference of the failing-input search',
           'tools/c2clite.py + clang -ast-dump=json (syntax printer of the translated mot.c lbuf_search and its callees in uc.c, lbuf.c, rstr.c) and the C semantics fixed in coq/CLite.v (x86-64 integer sizes, left-to-right evaluation, conversions wrap, a local array as a block allocated on entry); the matcher behind rstr_find is an oracle described by a function (TrSearch.find_ans)']

MARK = '#%#'
W = '0-9A-Za-z_\x80-\U0010ffff'
ALPHA = ['a', 'b', 'A', ' ', '_', '-', 'é', '中', '.', '/', '\\']
NEAT_META = set('\\.*+?[]{}()$|^')


# ---------------------------------------------------------------------------------------------
# patterns: token lists  [kind, value, star]   kind in lit any cls bol eol wbeg wend


def render_neat(toks, delim):
    out = ''
    for k, v, st in toks:
        if k == 'lit':
            if v == delim:
                out += '\\' + v
            elif v in NEAT_META:
                out += '\\' + v
            else:
                out += v
        elif k == 'any':
            out += '.'
        elif k == 'cls':
            neg, items = v
            out += '[' + ('^' if neg else '') + ''.join(a if a == b else a + '-' + b for a, b in items) + ']'
        elif k == 'bol':
            out += '^'
        elif k == 'eol':
            out += '$'
        elif k == 'wbeg':
            out += '\\<'
        elif k == 'wend':
            out += '\\>'
        elif k in ('alt', 'lp', 'rp'):
            out += {'alt': '|', 'lp': '(', 'rp': ')'}[k]
        elif k == 'bad':
            out += v            # the raw text of a malformed pattern (never holds a delimiter or a backslash)
        if st:
            out += '*'
    return out


def is_bad(toks):
    """the pattern is one the editor rejects (rstr_make returns NULL): it finds nothing, whatever the text"""
    return bool(toks) and any(k == 'bad' for k, _, _ in toks)


def render_py(toks):
    out = ''
    for k, v, st in toks:
        if k == 'lit':
            out += re.escape(v)
        elif k == 'any':
            out += '.'
        elif k == 'cls':
            neg, items = v
            out += '[' + ('^' if neg else '') + ''.join(
                (re.escape(a) if a == b else re.escape(a) + '-' + re.escape(b)) for a, b in items) + ']'
        elif k == 'bol':
            out += '^'
        elif k == 'eol':
            out += '$'
        elif k == 'wbeg':
            out += '(?<![%s])(?=[%s])' % (W, W)
        elif k == 'wend':
            out += '(?<=[%s])(?![%s])' % (W, W)
        elif k in ('alt', 'lp', 'rp'):
            out += {'alt': '|', 'lp': '(', 'rp': ')'}[k]
        if st:
            out += '*'
    return out


def has_word_atoms(toks):
    return any(k in ('wbeg', 'wend') for k, _, _ in toks)


FIXED_PATTERNS = [
    [['lit', 'a', 0]], [['lit', 'a', 0], ['lit', 'b', 0]], [['lit', 'a', 0], ['lit', 'a', 0]],
    [['bol', 0, 0], ['lit', 'a', 0]], [['lit', 'b', 0], ['eol', 0, 0]], [['bol', 0, 0]], [['eol', 0, 0]],
    [['bol', 0, 0], ['eol', 0, 0]], [['lit', 'x', 1]], [['lit', 'a', 1]], [['bol', 0, 0], ['lit', 'x', 1]],
    [['lit', 'b', 1], ['eol', 0, 0]], [['any', 0, 0]], [['any', 0, 1]], [['lit', 'a', 0], ['any', 0, 0]],
    [['cls', [0, [['a', 'b']]], 0]], [['cls', [1, [['a', 'a']]], 0]], [['cls', [1, [['a', 'a']]], 1]],
    [['cls', [0, [['é', 'é'], ['中', '中']]], 0]], [['lit', 'é', 0]], [['lit', 'é', 1]],
    [['lit', '中', 0], ['lit', 'a', 0]], [['lit', '.', 0]], [['lit', '/', 0]], [['lit', ' ', 0]],
    [['wbeg', 0, 0], ['lit', 'a', 0]], [['lit', 'a', 0], ['wend', 0, 0]], [['wbeg', 0, 0]], [['wend', 0, 0]],
    [['wbeg', 0, 0], ['lit', 'a', 0], ['lit', 'b', 0], ['wend', 0, 0]], [['lit', 'A', 0]],
    [['bol', 0, 0], ['cls', [0, [['a', 'b']]], 1]], [['lit', 'b', 0], ['lit', 'a', 1]],
    [['any', 0, 0], ['eol', 0, 0]], [['bol', 0, 0], ['any', 0, 0]],
]

def L(w):
    return [['lit', c, 0] for c in w]


B_, A_, LP, RP, E_ = ['bol', 0, 0], ['alt', 0, 0], ['lp', 0, 0], ['rp', 0, 0], ['eol', 0, 0]
# a pattern that starts with ^ and has an unanchored alternative: the fast-path test "lbeg && NOTBOL" must not apply
ALT_PATTERNS = [
    [B_] + L('a') + [A_] + L('b'), [B_] + L('foo') + [A_] + L('bar'), [LP, B_] + L('a') + [A_] + L('b') + [RP] + L('a'),
    [B_, ['cls', [0, [['a', 'b']]], 0]] + L('b') + [A_] + L('a'), [B_, E_, A_] + L('a'), [B_] + L('ab') + [A_] + L('ba'),
    [B_, ['cls', [0, [['f', 'f']]], 0]] + L('oo') + [A_] + L('r'), L('b') + [A_, B_] + L('a'),
]
ALT_TEXTS = [['foo bar bar', 'bar foo bar', 'xbar', ''], ['abab ba', 'baab', '', 'aabb'], ['a b a b', 'bb', 'ab'], ['éa bar é', 'foo', 'barbar']]

TEXTS = [
    ['abab', 'ab'], ['xabab', '', 'ab'], ['aaaa', 'aa'], ['a b', ' ab ', 'b'], ['', '', 'a'], ['ab'],
    ['éaé', 'a中a'], ['中中', 'é', ''], ['a.b/a', 'ab-ab_ab'], ['Ab', 'aB', 'AB'],
    ['xfoo foo', 'foo'], ['ab ab', 'abab'], ['  a', '  ', 'b'], ['aa a', 'a aa'], ['éé é', 'é'],
    ['b', 'a', 'b', 'a', 'b'],
]


def gen_tokens(rng):
    n = rng.choice([1, 1, 2, 2, 3])
    toks = []
    if rng.chance(1, 6):
        toks.append(['bol', 0, 0])
    if rng.chance(1, 8):
        toks.append(['wbeg', 0, 0])
    for i in range(n):
        t = rng.below(10)
        if t < 6:
            tk = ['lit', rng.choice(ALPHA), 0]
        elif t < 7:
            tk = ['any', 0, 0]
        else:
            m = rng.choice([[['a', 'b']], [['a', 'a']], [['é', 'é'], ['a', 'a']], [['a', 'a'], [' ', ' ']], [['A', 'B']],
                            [['中', '中']], [['_', '_'], ['-', '-']]])
            tk = ['cls', [1 if rng.chance(1, 3) else 0, m], 0]
        if rng.chance(1, 4):
            tk[2] = 1
        toks.append(tk)
        if i + 1 < n and rng.chance(1, 12):
            toks.append([rng.choice(['wbeg', 'wend']), 0, 0])
    if rng.chance(1, 8):
        toks.append(['wend', 0, 0])
    if rng.chance(1, 6):
        toks.append(['eol', 0, 0])
    return toks


def gen_text(rng):
    nl = rng.choice([1, 2, 2, 3, 3, 4])
    lines = []
    for i in range(nl):
        n = rng.choice([0, 1, 2, 3, 4, 5, 6])
        al = rng.choice([['a', 'b'], ['a', 'b', ' '], ALPHA, ['a', 'é', '中', ' '], ['a', 'A', 'b', '_']])
        lines.append(''.join(rng.choice(al) for _ in range(n)))
    return lines


# ---------------------------------------------------------------------------------------------
# the property in Python


def clamp(line, o):
    return max(0, min(o, len(line) - 1))


def indent(line):
    k = 0
    while k < len(line) and line[k] in ' \t\v\f\r':     # C isspace (lbuf_indents); the text never holds \n inside a line
        k += 1
    if k == len(line):
        k += 1              # the newline is white space too; clamped afterwards
    return k


class Spec:
    """hide_left=False: the property (whole-line context).  hide_left=True: the left neighbour of
    the position where a scan (re)starts is hidden, as suffix matching does (KF-LCTX classifier)."""

    def __init__(self, lines, ic, hide_left=False):
        self.lines, self.ic, self.hide = lines, ic, hide_left
        self.kw = None          # (tokens)
        self.dir = 0
        self.soset = False
        self.so = 0
        self.cache = {}

    def rx(self, toks, notbol=False):
        key = (json.dumps(toks), notbol)
        if key not in self.cache:
            src = render_py(toks)
            if notbol:
                src = render_py([t if t[0] != 'bol' else ['cls', [1, [['\x00', '\U0010ffff']]], 0] for t in toks])
            # ignorecase of the editor folds A-Z / a-z only (rstr.c tolower in the C locale, regex.c c < 128):
            # re.ASCII keeps re.IGNORECASE from identifying non-ASCII letters (é/É, ı/i, K/k)
            self.cache[key] = re.compile(src, (re.I | re.A) if self.ic else 0)
        return self.cache[key]

    def find(self, line, pos):
        """leftmost match starting at or after pos; (start, end) or None"""
        if not self.hide or pos == 0:
            m = self.rx(self.kw).search(line, pos)
            return (m.start(), m.end()) if m else None
        m = self.rx(self.kw, True).search(line[pos:])
        return (m.start() + pos, m.end() + pos) if m else None

    def forward(self, r, o):
        line = self.lines[r]
        if o + 1 <= len(line) and len(line) > 0:
            m = self.find(line, o + 1)
            if m:
                return (r, m[0])
        for i in range(r + 1, len(self.lines)):
            m = self.find(self.lines[i], 0)
            if m:
                return (i, m[0])
        return None

    def occ(self, line):
        out = []
        pos = 0
        while True:
            m = self.find(line, pos)
            if not m:
                break
            out.append(m[0])
            pos = m[1] if m[1] > m[0] else m[1] + 1
            if pos >= len(line):
                break
        return out

    def backward(self, r, o):
        for i in range(r, -1, -1):
            oc = self.occ(self.lines[i])
            if i == r:
                k = []
                for x in oc:
                    if x >= o:
                        break
                    k.append(x)
                oc = k
            if oc:
                return (i, oc[-1])
        return None

    def curword(self, line, off):
        def isw(c):
            return c.isalnum() and ord(c) < 128 or c == '_' or ord(c) > 127
        if line == '':
            return None
        p = clamp(line, off)
        e = p
        while e < len(line) and isw(line[e]):
            e += 1
        b = p
        while b > 0 and isw(line[b - 1]):
            b -= 1
        if b >= e:
            return None
        return line[b:e]

    def command(self, cmd, r, o):
        """cmd = [kind, tokens or None, count, rest] or [kind, tokens, count, rest, close] (close = the closing delimiter is
        typed although nothing follows it); returns (ok, r, o)"""
        kind, toks, cnt, rest = cmd[:4]
        if kind in '/?':
            if toks:
                self.kw = toks
            self.dir = 1 if kind == '/' else -1
            rs = rest.lstrip(' \t')
            self.soset = rs != ''
            m = re.match(r'[+-]?[0-9]*', rs)
            self.so = int(m.group(0)) if m and re.search('[0-9]', m.group(0)) else 0
        if kind in 'SG':
            # :s/pat/x/ and :g/pat/p with a pattern the editor rejects: the pattern is remembered (direction forward),
            # nothing else happens -- no substitution, no movement, the line offset is untouched
            assert is_bad(toks)
            self.kw = toks
            self.dir = 1
            return (False, r, o)
        if kind == 'A':
            if not self.lines:
                return (False, r, o)
            w = self.curword(self.lines[r], o)
            if w is None:
                return (False, r, o)
            self.kw = [['wbeg', 0, 0]] + [['lit', c, 0] for c in w] + [['wend', 0, 0]]
            self.dir = 1
            self.soset = False
        if not self.lines or self.dir == 0 or self.kw is None:
            return (False, r, o)
        if is_bad(self.kw):
            return (False, r, o)        # a pattern that does not compile matches nowhere: "not found", the cursor stays
        d = -self.dir if kind == 'N' else self.dir
        cr, co = r, o
        for i in range(cnt):
            res = self.forward(cr, co) if d > 0 else self.backward(cr, co)
            if res is None:
                return (False, r, o)
            cr, co = res
        if self.soset:
            if cr + self.so < 0 or cr + self.so >= len(self.lines):
                return (False, r, o)
            cr += self.so
            co = indent(self.lines[cr])
        return (True, cr, clamp(self.lines[cr], co))


def expected(case, hide=False, offs=None):
    sp = Spec(case['text'], case['ic'], hide)
    r, o = case['row'], case['col']
    oks = []
    case_offs = []
    for cmd in case['cmds']:
        ok, r, o = sp.command(cmd, r, o)
        oks.append(ok)
        case_offs.append((1 if sp.soset else 0, sp.so))
    if offs is not None:
        offs.extend(case_offs)
    return (r, o), oks


# ---------------------------------------------------------------------------------------------
# running the implementation and the model


def typed_of(cmd):
    kind, toks, cnt, rest = cmd[:4]
    t = render_neat(toks, kind) if toks else ''
    if rest or (len(cmd) > 4 and cmd[4]):
        t += kind + rest
    return t


def keys_of(case):
    k = b''
    if not case['ic']:
        k += b':se noic\n'
    k += b'%dG0' % (case['row'] + 1)
    if case['col'] > 0:
        k += b'%dl' % case['col']
    for cmd in case['cmds']:
        kind, toks, cnt, rest = cmd[:4]
        if kind in 'SG':
            k += (':s/%s/x/\n' if kind == 'S' else ':g/%s/p\n').encode() % render_neat(toks, '/').encode('utf-8')
            continue
        if cnt != 1:
            k += b'%d' % cnt
        if kind in '/?':
            k += kind.encode() + typed_of(cmd).encode('utf-8') + b'\n'
        elif kind == 'A':
            k += b'\x01'
        else:
            k += kind.encode()
    k += b'i' + MARK.encode() + b'\x1b:w! out\n:q!\n'
    return k


def file_of(case):
    return ''.join(l + '\n' for l in case['text']).encode('utf-8')


def run_impl(exe, case, timeout=10):
    r = vlib.run_vi(exe, keys_of(case), files={'f': file_of(case)}, args=['f'], readback=['out'], timeout=timeout)
    if r.timed_out:
        r = vlib.run_vi(exe, keys_of(case), files={'f': file_of(case)}, args=['f'], readback=['out'], timeout=3 * timeout)
        if r.timed_out:
            return ('hang', None, r)
    out = r.files.get('out')
    if r.crashed() or out is None:
        return ('crash rc=%s' % r.rc, None, r)
    try:
        txt = out.decode('utf-8')
    except UnicodeDecodeError:
        return ('invalid utf-8 written', None, r)
    lines = txt.split('\n')[:-1]
    pos = None
    for i, l in enumerate(lines):
        j = l.find(MARK)
        if j >= 0:
            pos = (i, j)
            lines[i] = l[:j] + l[j + len(MARK):]
            break
    want = case['text'] if case['text'] else ['']
    if pos is None or lines != want:
        return ('text changed or marker missing', pos, r)
    return (None, pos, r)


def model_line(case):
    lines = ','.join(vlib.hx((l + '\n').encode('utf-8')) for l in case['text']) or '-'
    cmds = []
    for cmd in case['cmds']:
        kind, toks, cnt, rest = cmd[:4]
        if kind in '/?':
            cmds.append('%s%s:%d' % (kind, vlib.hx(typed_of(cmd).encode('utf-8')), cnt))
        elif kind in 'SG':
            cmds.append('K%s:1' % vlib.hx(render_neat(toks, '/').encode('utf-8')))      # ex_kwdset(pat, +1) and nothing else
        else:
            cmds.append('%s:%d' % (kind, cnt))
    return 'run %d %d %d %s %s' % (1 if case['ic'] else 0, case['row'], case['col'], lines, ' '.join(cmds))


def lctx_explains(case, got):
    """KF-LCTX, narrowly: the pattern in force has \\< or \\>, and the observed cursor is what the
    property yields when only the left neighbour of a scan's starting position is hidden."""
    word = False
    for cmd in case['cmds']:
        if cmd[0] == 'A':
            word = True
        if cmd[1] and has_word_atoms(cmd[1]):
            word = True
    if not word:
        return False
    return expected(case, hide=True)[0] == got


# ---------------------------------------------------------------------------------------------
# bit-5 twins: byte strings that differ from a literal only in bit 5 of some bytes.  Bit 5 is the case bit of
# ASCII letters and of nothing else, so for every other character the twin is a NON-occurrence that a sloppy
# case-insensitive comparison takes for one ('#'/^C, '-'/CR, digits/^P..^Y, '@'/'`', UTF-8 continuation bytes
# 80..9f/a0..bf, lead bytes c0..df/e0..ff).  Twins are put in front of the real occurrence.

import unicodedata

SYMS = list('#-,019@`~_;=!"\'&:<>/') + ['é', 'É', 'ı', 'đ', '中', '不', 'ö', 'ñ', 'П']
TWIN_WORDS = ['a#b', 'x-y', '1', 'a1', '@', '~x', 'a_b', ';', 'é', 'ıx', '中', 'b,', 'aП', '9=9', "a'b", 'ö-', 'xı', '"a"', 'B!']
_BAD = set('\x00\n\x1a%\x05')


def _twin_ok(t):
    for ch in t:
        if ch in _BAD:
            return False
        if ord(ch) > 127 and (not ch.isprintable() or unicodedata.combining(ch) or unicodedata.category(ch) in ('Mn', 'Me', 'Cf')):
            return False
    return True


def byte_twins(ch):
    """strings whose UTF-8 bytes are those of ch with bit 5 flipped in one or more bytes (padded with 80 when
    the flipped lead byte announces a longer sequence); valid UTF-8 only.  An ASCII letter has none (its twin is
    the other case, a real occurrence under ignorecase)."""
    if ch.isascii() and ch.isalpha():
        return []
    b = ch.encode('utf-8')
    out = []
    for mask in range(1, 1 << len(b)):
        t = bytes(x ^ (0x20 if (mask >> i) & 1 else 0) for i, x in enumerate(b))
        for pad in (b'', b'\x80', b'\x80\x80'):
            try:
                u = (t + pad).decode('utf-8')
            except UnicodeDecodeError:
                continue
            if _twin_ok(u) and u not in out:
                out.append(u)
            break
    return out


def twin_words(w):
    """w with one, and with every, twin-able character replaced by a twin (letters swap case along with it)"""
    out = []
    idx = [i for i, ch in enumerate(w) if byte_twins(ch)]
    for i in idx:
        for t in byte_twins(w[i]):
            out.append(w[:i] + t + w[i + 1:])
    if len(idx) > 1:
        out.append(''.join(byte_twins(ch)[0] if byte_twins(ch) else ch for ch in w))
    out += [x.swapcase() for x in out if x.swapcase() != x and any(c.isascii() and c.isalpha() for c in x)][:1]
    res = []
    for x in out:
        if x != w and x not in res:
            res.append(x)
    return res


def twin_texts(w):
    """(text with real occurrences behind twins, text with twins only)"""
    tw = twin_words(w)
    t0, t1, t2 = tw[0], tw[1 % len(tw)], tw[-1]
    a = ['s', t0 + ' ' + w + ' ' + t1, t2 + w.swapcase(), t1, w]
    b = ['s', t0 + ' ' + t1, t2]
    return a, b


def gen_twin_case(rng):
    """random: a literal of 1-3 characters with at least one non-letter, optionally anchored; lines made of the
    literal, its twins, its case variants and noise"""
    while True:
        w = ''.join(rng.choice(SYMS + ['a', 'b', 'A', 'x']) for _ in range(rng.choice([1, 2, 2, 3])))
        if twin_words(w):
            break
    tw = twin_words(w)
    pieces = [w, w.swapcase(), w.upper()] + tw + tw
    lines = []
    for i in range(rng.choice([1, 2, 3, 4])):
        n = rng.choice([0, 1, 2, 3, 4])
        ln = ''
        for j in range(n):
            ln += rng.choice(pieces) if rng.chance(3, 4) else rng.choice(SYMS + ['a', ' '])
            if rng.chance(1, 2):
                ln += ' '
        lines.append(ln)
    if rng.chance(3, 4):
        lines[rng.below(len(lines))] += rng.choice(tw) + rng.choice(['', ' ']) + w       # a twin right before an occurrence
    toks = L(w)
    t = rng.below(12)
    if t == 0:
        toks = [B_] + toks
    elif t == 1:
        toks = toks + [E_]
    elif t == 2:
        toks = [['wbeg', 0, 0]] + toks + [['wend', 0, 0]]
    elif t == 3:
        toks = [['wbeg', 0, 0]] + toks
    return lines, toks


# ---------------------------------------------------------------------------------------------
# backslashes in front of the closing delimiter.  re_read consumes a backslash TOGETHER WITH the byte after it: the
# delimiter behind an even run of backslashes closes the pattern (which then ends in escaped backslashes, and a line
# offset may follow), behind an odd run it is an escaped delimiter = a character of the pattern.  The buffers hold
# a\  a/  a?  a\/  a\\ ... side by side, so that reading  /a\\/  as "a/" lands somewhere else, or lands at all.

BS_TEXTS = [
    ['start', 'a/ b', 'a\\ b', 'end'],
    ['start', 'a\\ b', 'a? b', 'end'],
    ['start', 'a/1 b', 'a\\ b', 'next', 'end'],
    ['start', 'a/ b', 'a? b', 'end'],                                   # no a\ at all: /a\\/ must fail and stay
    ['a\\/ a/ a\\ a? a\\\\', 'x a\\\\ a\\? a/', '  a?1 a/1', 'a\\', '\\ \\\\ /\\'],
    ['é\\ é/ 中\\', '中? é\\\\/', 'é/-1 \\/', ' é\\'],
]
BS_WORDS = ['a\\', 'a\\', 'a\\\\', '\\', '\\\\', 'é\\', 'a\\/', 'a\\?', 'a\\/1', 'a\\\\/', 'a\\\\?', 'b a\\', '中\\', 'a/', 'a?', 'a/1', 'a?1', 'a\\ ']
BS_RESTS = ['', '', '', '1', '-1', '+1', ' 1', '2', 'x', '+0', '-']


def bs_cmds(rng, kind, w):
    """a / or ? command for the literal w with its closing delimiter typed (rest may be empty), plus follow-ups"""
    rest = rng.choice(BS_RESTS)
    cmds = [[kind, L(w), rng.choice([1, 1, 1, 2]), rest, 1]]
    t = rng.below(8)
    if t == 0:
        cmds.append(['n', None, 1, ''])
    elif t == 1:
        cmds.append(['N', None, 1, ''])
    elif t == 2:
        cmds.append([rng.choice('/?'), None, 1, rng.choice(BS_RESTS), 1])        # empty pattern, closing delimiter typed: the same pattern
    elif t == 3:
        cmds.append(['A', None, 1, ''])
    return cmds


# ---------------------------------------------------------------------------------------------
# the remembered line offset: /pat/+N and ?pat?-N FOLLOWED by ^A, n, N, plain and empty patterns in one session

OFF_TEXTS = [
    (['ab cd', 'cd ef', '  cd', 'ij cd', 'kl'], ['cd', 'ef']),
    (['x', '', 'foo bar', '\tbar foo', 'foo', '  ', 'bar'], ['foo', 'bar']),
    (['é中 a', ' a é中', 'a', '   é中 b', 'b a'], ['a', 'é中']),
]
OFF_RESTS = ['1', '+1', '-1', '2', '-2', '+0', '-', ' 1', 'x', '+3', '-4', '+']


def off_shapes(kind, toks, rest, other):
    """command sequences that start with a / or ? carrying a line offset"""
    p = [kind, toks, 1, rest]
    A, A2, n, N, n2 = ['A', None, 1, ''], ['A', None, 2, ''], ['n', None, 1, ''], ['N', None, 1, ''], ['n', None, 2, '']
    plain = [kind, other, 1, '']
    again = ['/', None, 1, rest]                 # empty pattern + offset: the previous pattern (after ^A: the word) with the offset
    return [[p], [p, A], [p, A, n], [p, A, N], [p, A2], [p, n], [p, N], [p, n2, A], [p, n, A, n], [p, N, A], [p, plain, A],
            [p, plain, n], [p, A, again], [p, A, again, A], [plain, A, n], [p, A, A, N]]


# ---------------------------------------------------------------------------------------------
# literals that overlap themselves, with \< / \> (round i/j).  The scan of rstr_find must try EVERY start offset: an
# occurrence that fails the boundary test may be overlapped by a later one that passes it (baaa / aa\> : the occurrence at
# 1 is followed by a word character, the one at 2 ends the word; ba-a-a / \<a-a : the one at 1 follows b, the one at 3
# follows -).  A word w with a border (a proper prefix that is also a suffix) has a period p < |w|; run(w, k) = k
# occurrences of w, each starting p bytes after the previous one.

OV_WORDS = ['aa', 'aaa', 'abab', 'aba', 'a-a', 'ab-ab', 'a a', '-a-', 'a-a-a', 'é-é', '中a中', 'aA', 'x_x', '1-1', 'b.b', 'é中é']
OV_EDGE = ['', 'b', '-', ' ', '中', '_']


def period(w):
    for p in range(1, len(w) + 1):
        if w[p:] == w[:len(w) - p]:
            return p
    return len(w)


def run_of(w, k):
    return w + w[len(w) - period(w):] * (k - 1)


def ov_patterns(w):
    wb, we = ['wbeg', 0, 0], ['wend', 0, 0]
    return [L(w) + [we], [wb] + L(w), [wb] + L(w) + [we], L(w) + [we, E_], [B_, wb] + L(w), [B_] + L(w) + [we], L(w)]


def ov_texts(w):
    """lines in which occurrences of w overlap, each run between different neighbours (a word character, a
    non-word character, a multi-byte character, nothing), next to isolated occurrences"""
    a = ['start', 'b' + run_of(w, 2) + ' ' + w, w + ' b' + run_of(w, 2), run_of(w, 3) + 'b ' + run_of(w, 2), 'end']
    b = [run_of(w, 2) + '-' + run_of(w, 3), '中' + run_of(w, 2) + '中 ' + w + '_' + run_of(w, 2), '', ' ' + run_of(w, 4) + ' ', 'xx ' + run_of(w, 2) + ' ' + w]
    return [a, b]


def gen_overlap_case(rng):
    """random: w = u v u over a small alphabet, lines made of runs of w between random neighbours, pattern anchored at
    random with \\< \\> ^ $"""
    al = rng.choice([['a', 'b'], ['a', '-'], ['a', 'b', '-', ' '], ['a', 'é', '-'], ['a', '_', ' ', 'A'], ['中', 'a', '.']])
    u = ''.join(rng.choice(al) for _ in range(rng.choice([1, 1, 2])))
    v = ''.join(rng.choice(al) for _ in range(rng.choice([0, 0, 1, 1, 2])))
    w = u + v + u
    lines = []
    for i in range(rng.choice([1, 2, 3, 4])):
        ln = ''
        for j in range(rng.choice([0, 1, 2, 3])):
            ln += rng.choice(OV_EDGE + al) if rng.chance(2, 3) else ''
            ln += run_of(w, rng.choice([1, 2, 2, 3, 4]))
        if rng.chance(1, 2):
            ln += rng.choice(OV_EDGE + al)
        lines.append(ln)
    return lines, rng.choice(ov_patterns(w)[:6]) if rng.chance(5, 6) else L(w)


# ---------------------------------------------------------------------------------------------
# histories: several searches in ONE editor session, patterns the editor rejects in front of valid ones (round i/j).
# Where a search lands is a function of (text, cursor, pattern, direction, remembered offset) only; what was compiled --
# and rejected -- before must not matter (regex.c keeps a file-static "malformed" flag between regcomp calls).  The only
# rule that looks back is the documented one: an empty pattern (and n / N) use the LAST pattern, also when that one is
# malformed (they then fail in place).

# rejected by the parser of regex.c (they reach regcomp): bad repetition counts, a group with an empty alternative only
BAD_REGEX = ['a{3,2}', 'a{200}', 'a{x}', '(|)', 'b{2,1}d', 'x(|)y', 'a{3,2}|b', 'b|a{2,1}', '(a{9,1})', '[ab]{7,3}', 'a{1,300}', '.{x}', '(a|(|))']
# rejected before regcomp is called, by re_groupcount of rset.c: unbalanced parentheses, an unclosed bracket expression
BAD_WRAP = ['(', 'a)', '(a', '[a', 'a(b', '(a))', '[^', 'a[b-']
HIST_TEXTS = [
    ['start', 'xx abd', 'b-d here', 'abd b-d', 'end'],
    ['aab ab', '', 'b.d a{3,2}', 'é中 b中d', 'a{200} (|) abd'],
    ['(|) x.', 'ab', 'a{x} ab', '  xé b-d'],
]
ANY, STAR_A = ['any', 0, 0], ['lit', 'a', 1]
GOOD_REGEX = [L('b') + [ANY] + L('d'), [['cls', [0, [['b', 'b']]], 0]] + L('-d'), L('x') + [ANY], [STAR_A] + L('b'), [ANY], L('a') + [['cls', [1, [['b', 'b']]], 0]],
              [B_, ANY], [ANY, E_], [['cls', [0, [['a', 'b']]], 1]] + L('d'), L('b') + [['any', 0, 1]] + L('d'), L('é') + [ANY]]
GOOD_LIT = [L('abd'), L('ab'), [['wbeg', 0, 0]] + L('ab') + [['wend', 0, 0]], [B_] + L('a'), L('d') + [E_], L('b-d')]


def bad_toks(rng, only_regex=False):
    return [['bad', rng.choice(BAD_REGEX if only_regex or rng.chance(3, 4) else BAD_WRAP), 0]]


def hist_shapes(rng, bad, bad2, good, lit):
    """sessions around one valid search `good` (a / or ? command); bad, bad2 = malformed / or ? commands"""
    n, N, A = ['n', None, 1, ''], ['N', None, 1, ''], ['A', None, 1, '']
    S, G = ['S', bad[1], 1, ''], ['G', bad2[1], 1, '']
    empty = [rng.choice('/?'), None, 1, '']
    return [[bad, good], [bad, bad2, good], [bad, lit, good], [bad, A, good], [bad, good, n], [bad, good, N], [good, bad, good], [good, bad, n],
            [bad, empty, good], [lit, bad, A, bad2, good], [S, good], [G, good], [good, S, n], [bad, G, lit, good, n], [bad, good, bad2, dict_rev(good)],
            [A, bad, good, N]]


def dict_rev(cmd):
    c = list(cmd)
    c[0] = '?' if c[0] == '/' else '/'
    return c



def cases(ctx):
    rng = ctx.rng
    out = []
    # every cursor position of small buffers x fixed patterns x both directions
    texts = TEXTS if not ctx.quick else [TEXTS[i] for i in range(len(TEXTS)) if (i + ctx.seed) % 2 == 0 or i < 4]
    for ti, text in enumerate(texts):
        pats = FIXED_PATTERNS if not ctx.quick else [p for i, p in enumerate(FIXED_PATTERNS) if (i + ti + ctx.seed) % 3 != 0]
        for r, line in enumerate(text):
            for c in range(max(1, len(line))):
                for toks in pats:
                    for kind in '/?':
                        if ctx.quick and rng.chance(1, 2):
                            continue
                        out.append({'text': text, 'ic': True, 'row': r, 'col': c, 'cmds': [[kind, toks, 1, '']], 'src': 'grid'})
    # sequences: / ? n N ^A with counts and line offsets on random texts
    for i in range(700 if ctx.quick else 12000):
        text = gen_text(rng) if rng.chance(3, 4) else rng.choice(TEXTS + ALT_TEXTS)
        r = rng.below(len(text))
        c = rng.below(max(1, len(text[r])))
        cmds = []
        n = rng.choice([1, 2, 2, 3, 4])
        have = False
        havepat = False
        offmode = rng.chance(1, 3)               # sessions in which line offsets are common and ^A follows them
        if offmode:
            n += 1
        for j in range(n):
            t = rng.below(10)
            cnt = rng.choice([1, 1, 1, 2, 2, 3, 4])
            if offmode and have:
                t = rng.choice([0, 4, 5, 7, 9, 9, 9])
                cnt = rng.choice([1, 1, 1, 2])
            if not have or t < 4:
                toks = gen_tokens(rng) if rng.chance(2, 3) else rng.choice(FIXED_PATTERNS + ALT_PATTERNS)
                if rng.chance(1, 10):
                    toks = [B_] + gen_tokens(rng) + [A_] + [t for t in gen_tokens(rng) if t[0] != 'bol']
                if havepat and rng.chance(1, 10):
                    toks = None                # empty pattern: the last one again
                else:
                    havepat = True
                rest = rng.choice(['+1', '-1', '1', ' 2', '+0', '-', 'x']) if rng.chance(1, 2 if offmode else 10) else ''
                if offmode and toks and rng.chance(1, 2):
                    toks = L(rng.choice([x for x in re.split('[^a-zA-Zé中_]+', ' '.join(text)) if x] or ['a']))    # a word of the text
                cmds.append([rng.choice('/?'), toks, cnt, rest])
                have = True
            elif t < 7:
                cmds.append(['n', None, cnt, ''])
            elif t < 9:
                cmds.append(['N', None, cnt, ''])
            else:
                cmds.append(['A', None, cnt, ''])
                have = True
        out.append({'text': text, 'ic': not rng.chance(1, 5), 'row': r, 'col': c, 'cmds': cmds, 'src': 'random'})
    # patterns that start with ^ and have an unanchored branch: / ? with counts, then n / N, from every position
    for text in ALT_TEXTS:
        for toks in ALT_PATTERNS:
            for r, line in enumerate(text):
                for c in range(max(1, len(line))):
                    for kind in '/?':
                        for cnt in (1, 2):
                            for more in ([], [['n', None, 1, '']], [['N', None, 1, '']], [['n', None, 2, '']]):
                                if ctx.quick and not rng.chance(1, 8):
                                    continue
                                out.append({'text': text, 'ic': True, 'row': r, 'col': c, 'cmds': [[kind, toks, cnt, '']] + more, 'src': 'alt'})
    # bit-5 twins in front of the occurrence: every cursor position, / and ?, ignorecase on and off, then n / N
    for wi, w in enumerate(TWIN_WORDS):
        ta, tb = twin_texts(w)
        pats = [L(w), [B_] + L(w), L(w) + [E_], [['wbeg', 0, 0]] + L(w) + [['wend', 0, 0]]]
        for text in (ta, tb):
            for r, line in enumerate(text):
                for c in range(max(1, len(line))):
                    for pi, toks in enumerate(pats):
                        for kind in '/?':
                            for ic in (True, False):
                                for more in ([], [['n', None, 1, '']], [['N', None, 1, '']]):
                                    if ctx.quick and not rng.chance(1, 7 if pi == 0 else 40):
                                        continue
                                    if not ctx.quick and pi > 0 and not rng.chance(1, 4):
                                        continue
                                    out.append({'text': text, 'ic': ic, 'row': r, 'col': c, 'cmds': [[kind, toks, 1, '']] + more, 'src': 'twin'})
    for i in range(300 if ctx.quick else 5000):
        text, toks = gen_twin_case(rng)
        r = rng.below(len(text))
        c = rng.below(max(1, len(text[r])))
        cmds = [[rng.choice('/?'), toks, rng.choice([1, 1, 1, 2]), '']]
        for j in range(rng.choice([0, 0, 1, 2])):
            cmds.append([rng.choice('nN'), None, rng.choice([1, 1, 2]), ''])
        out.append({'text': text, 'ic': rng.chance(2, 3), 'row': r, 'col': c, 'cmds': cmds, 'src': 'twin-random'})
    # line offsets that outlive their search: /pat/off or ?pat?off, then ^A / n / N / plain / empty patterns
    for text, words in OFF_TEXTS:
        for wi, w in enumerate(words):
            other = L(words[1 - wi])
            for r, line in enumerate(text):
                for c in range(max(1, len(line))):
                    for kind in '/?':
                        for rest in OFF_RESTS:
                            for cmds in off_shapes(kind, L(w), rest, other):
                                if not rng.chance(1, 60 if ctx.quick else 6):
                                    continue
                                out.append({'text': text, 'ic': True, 'row': r, 'col': c, 'cmds': cmds, 'src': 'offset'})
    # patterns that end in backslashes, closing delimiter typed, line offsets behind it
    for text in BS_TEXTS:
        for r, line in enumerate(text):
            for c in range(max(1, len(line))):
                for w in BS_WORDS:
                    for kind in '/?':
                        if not rng.chance(1, 9 if ctx.quick else 1):
                            continue
                        if kind == '?' and '?' in w:
                            continue            # \? in a ?...? search is the escaped delimiter: re_read hands the regex a bare ? (a repetition operator)
                        out.append({'text': text, 'ic': rng.chance(3, 4), 'row': r, 'col': c, 'cmds': bs_cmds(rng, kind, w), 'src': 'backslash'})
    for i in range(150 if ctx.quick else 3000):
        pieces = ['a\\', 'a/', 'a?', 'a\\/', 'a\\?', 'a\\\\', 'a', '\\', '/', '?', 'b', ' ', ' ', '1']
        text = [''.join(rng.choice(pieces) for _ in range(rng.choice([0, 1, 2, 3, 4, 5]))) for _ in range(rng.choice([1, 2, 3, 4]))]
        w = ''.join(rng.choice(['a', 'a', '\\', '\\', '/', '?', 'b', '1']) for _ in range(rng.choice([1, 2, 2, 3, 4])))
        if rng.chance(1, 2) and not w.endswith('\\'):
            w += '\\'
        r = rng.below(len(text))
        out.append({'text': text, 'ic': True, 'row': r, 'col': rng.below(max(1, len(text[r]))), 'cmds': bs_cmds(rng, '/' if '?' in w else rng.choice('/?'), w),
                    'src': 'backslash-random'})
    # self-overlapping literals with \< / \>: every cursor position, both directions, counts, then n / N, and ^A on the word
    for wi, w in enumerate(OV_WORDS):
        for text in ov_texts(w):
            for r, line in enumerate(text):
                for c in range(max(1, len(line))):
                    for pi, toks in enumerate(ov_patterns(w)):
                        for kind in '/?':
                            for more in ([], [['n', None, 1, '']], [['N', None, 1, '']], None):
                                if not rng.chance(1, (75 if pi < 6 else 300) if ctx.quick else 5):
                                    continue
                                cnt = 1 if more is not None else 2
                                out.append({'text': text, 'ic': not rng.chance(1, 4), 'row': r, 'col': c, 'cmds': [[kind, toks, cnt, '']] + (more or []), 'src': 'overlap'})
                    if rng.chance(1, 8 if ctx.quick else 1):
                        out.append({'text': text, 'ic': True, 'row': r, 'col': c,
                                    'cmds': [['A', None, rng.choice([1, 1, 2]), '']] + rng.choice([[], [['n', None, 1, '']], [['N', None, 1, '']]]), 'src': 'overlap'})
    for i in range(250 if ctx.quick else 5000):
        text, toks = gen_overlap_case(rng)
        r = rng.below(len(text))
        cmds = [[rng.choice('/?'), toks, rng.choice([1, 1, 1, 2, 3]), '']]
        for j in range(rng.choice([0, 0, 1, 2])):
            cmds.append([rng.choice('nN'), None, rng.choice([1, 1, 2]), ''])
        out.append({'text': text, 'ic': rng.chance(3, 4), 'row': r, 'col': rng.below(max(1, len(text[r]))), 'cmds': cmds, 'src': 'overlap-random'})
    # histories: malformed patterns (and ex commands that leave one behind) in front of valid searches, in one session
    for text in HIST_TEXTS:
        for r, line in enumerate(text):
            for c in range(max(1, len(line))):
                for good_t in GOOD_REGEX + GOOD_LIT:
                    for kind in '/?':
                        if not rng.chance(1, 14 if ctx.quick else 1):
                            continue
                        good = [kind, good_t, rng.choice([1, 1, 1, 2]), rng.choice(['', '', '', '', '+1', '-1'])]
                        bad = [rng.choice('/?'), bad_toks(rng, True), 1, rng.choice(['', '', '', '1'])]
                        bad2 = [rng.choice('/?'), bad_toks(rng), rng.choice([1, 2]), '']
                        lit = [rng.choice('/?'), rng.choice(GOOD_LIT), 1, '']
                        out.append({'text': text, 'ic': not rng.chance(1, 5), 'row': r, 'col': c, 'cmds': rng.choice(hist_shapes(rng, bad, bad2, good, lit)), 'src': 'history'})
    for i in range(250 if ctx.quick else 5000):
        text = rng.choice(HIST_TEXTS) if rng.chance(1, 2) else gen_text(rng)
        r = rng.below(len(text))
        cmds = []
        have = False
        for j in range(rng.choice([2, 3, 3, 4, 5, 6])):
            t = rng.below(12)
            if t < 4 or (not have and t >= 8):
                cmds.append([rng.choice('/?'), bad_toks(rng), rng.choice([1, 1, 2]), rng.choice(['', '', '', '+1'])])
                have = True
            elif t < 8:
                toks = rng.choice(GOOD_REGEX) if rng.chance(2, 3) else (rng.choice(GOOD_LIT + FIXED_PATTERNS) if rng.chance(1, 2) else gen_tokens(rng))
                cmds.append([rng.choice('/?'), toks, rng.choice([1, 1, 1, 2]), rng.choice(['', '', '', '', '-1'])])
                have = True
            elif t < 9:
                cmds.append(['n', None, rng.choice([1, 1, 2]), ''])
            elif t < 10:
                cmds.append(['N', None, 1, ''])
            elif t < 11:
                cmds.append([rng.choice('SG'), bad_toks(rng), 1, ''])
            else:
                cmds.append([rng.choice('/?'), None, 1, ''])            # the last pattern again, whatever it was
        out.append({'text': text, 'ic': not rng.chance(1, 5), 'row': r, 'col': rng.below(max(1, len(text[r]))), 'cmds': cmds, 'src': 'history-random'})
    # ^A from every position
    for text in texts[:8]:
        for r, line in enumerate(text):
            for c in range(max(1, len(line))):
                out.append({'text': text, 'ic': True, 'row': r, 'col': c, 'cmds': [['A', None, 1, '']], 'src': 'word'})
    # empty buffer, and a long line (regex depth counter is not reached by these patterns)
    out.append({'text': [], 'ic': True, 'row': 0, 'col': 0, 'cmds': [['/', [['lit', 'a', 0]], 1, '']], 'src': 'edge'})
    long = 'ab' * 600 + 'c' + 'ab' * 600
    out.append({'text': [long, long], 'ic': True, 'row': 0, 'col': 0, 'cmds': [['/', [['lit', 'c', 0]], 2, '']], 'src': 'edge'})
    out.append({'text': [long, long], 'ic': True, 'row': 1, 'col': 1300, 'cmds': [['?', [['lit', 'c', 0], ['any', 0, 1]], 2, '']], 'src': 'edge'})
    # the classifier boundary of rstr_make (no random draws: every position of small fixed buffers): a keyword that is a plain literal except for
    # ONE anchor character in the middle is NOT a simple pattern -- a^b / a$b are regexes that can never match, whatever the text spells;
    # a keyword whose only special characters are the leading ^ \\< and the trailing \\> $ is one
    mid_pats = [L('a') + [B_] + L('b'), L('ab') + [B_] + L('a'), L('é') + [B_] + L('a'), L('a') + [E_] + L('b'), [B_] + L('a') + [B_] + L('b'),
                [B_] + L('a^b'), L('a^b') + [E_], [['wbeg', 0, 0]] + L('a') + [B_] + L('b')]
    mid_texts = [['a^b x', 'xa^b', 'ab^a a^b'], ['é^a', 'a$b a$b', 'a^b'], ['ab', 'a', 'b^a']]
    for text in mid_texts:
        for toks in mid_pats:
            for r, line in enumerate(text):
                for c in range(max(1, len(line))):
                    if ctx.quick and (r + c + len(toks)) % 2:
                        continue
                    for kind in '/?':
                        out.append({'text': text, 'ic': True, 'row': r, 'col': c, 'cmds': [[kind, toks, 1, '']], 'src': 'classifier'})
    return out


def load_corpus():
    import glob, os
    out = []
    for p in sorted(glob.glob(os.path.join(vlib.VERIF, 'corpus', 'C13-*.json'))):
        d = json.load(open(p))
        for c in d.get('cases', []):
            c['src'] = 'corpus:' + os.path.basename(p)
            out.append(c)
    return out


def run(ctx):
    res = ctx.res
    exe = vlib.build_vi()
    model = ctx.model('search')
    res.rule = ('one case = text x start position x a sequence of / ? n N ^A commands with counts and line offsets, run on the real binary '
                '(cursor revealed by an inserted marker) and on the extracted model; grid = every cursor position of the small buffers x fixed '
                'patterns x both directions.  non-trivial = the search moves the cursor or fails although the pattern occurs somewhere; '
                'distinct = distinct (text, start, commands)')
    if ctx.replay:
        rp = json.load(open(ctx.replay))
        todo = [rp['input']] if isinstance(rp.get('input'), dict) else []
    else:
        todo = load_corpus() + cases(ctx)
    res.count('cases', len(todo))

    impl = vlib.pmap(lambda c: run_impl(exe, c), todo)
    mout = None
    if model:
        rc, mout, err = vlib.run_lines(model, [model_line(c) for c in todo], timeout=900)
        if rc != 0 or len(mout) != len(todo):
            res.disagree({'what': 'model driver failed: rc=%s, %d answers for %d requests' % (rc, len(mout), len(todo)), 'stderr': err[-800:]})
            mout = None

    def in_domain(cmds):
        # what the generator produces: an empty pattern only after a pattern has been given (with nothing remembered the
        # editor searches for the empty regex, the specification says "no pattern": not a case of this check), n / N only
        # after a search; the shrinker must not leave that domain by dropping the command that carries the pattern
        have = havepat = False
        for cmd in cmds:
            if cmd[0] in '/?':
                if not cmd[1] and not havepat:
                    return False
                have = havepat = True
            elif cmd[0] == 'A':
                have = True
            elif cmd[0] in 'SG':
                have = havepat = True
            elif not have:
                return False
        return True

    def fails(case):
        if not in_domain(case['cmds']):
            return False
        err, pos, _ = run_impl(exe, case)
        want, _ = expected(case)
        return err is not None or pos != want

    nviol = 0
    for i, case in enumerate(todo):
        res.evaluations += 1
        res.count('src ' + case.get('src', 'replay').split(':')[0])
        err, pos, r = impl[i]
        soffs = []
        want, oks = expected(case, offs=soffs)
        if any(so[0] for so in soffs[:-1]):
            res.count('sessions in which a command runs with a line offset pending from an earlier one')
            if any(cmd[0] == 'A' for cmd, so in zip(case['cmds'][1:], soffs[:-1]) if so[0]):
                res.count('^A typed while a line offset is pending')
        if want != (case['row'], case['col']) or not all(oks):
            res.nontriv(json.dumps([case['text'], case['row'], case['col'], case['cmds']]))
        for cmd in case['cmds']:
            res.count('cmd ' + cmd[0])
        if any(ord(ch) > 127 for l in case['text'] for ch in l):
            res.count('multi-byte text')
        if i % 997 == 0:
            res.sample({'keys': keys_of(case).decode('utf-8', 'replace'), 'text': case['text'], 'cursor': pos, 'expected': want})
        # correspondence
        if mout is not None and err is None:
            if mout[i] == 'unsupported':
                res.count('pattern outside the reference matcher (oracle only)')
            else:
                per = [x.split() for x in mout[i].split(';')]
                last = per[-1]
                mpos = (int(last[1]), int(last[2]))
                if mpos != pos:
                    res.disagree({'what': 'model and implementation differ (final cursor)', 'input': case, 'keys': keys_of(case).decode('utf-8', 'replace'),
                                  'implementation': pos, 'model': mpos})
                # the remembered line offset after every command: the model's state against the property's reading
                moffs = [(int(x[3]), int(x[4])) for x in per if len(x) >= 5]
                if moffs != soffs:
                    res.disagree({'what': 'model and specification differ on the remembered line offset (soset, so) after each command',
                                  'input': case, 'model': moffs, 'specification': soffs})
        # the property
        if err is not None or pos != want:
            if err is None and lctx_explains(case, pos):
                res.violation({'what': 'left neighbour hidden by suffix matching: \\< or \\> right after the position a scan starts from'}, kf='KF-LCTX')
                continue
            if nviol < 3 and len(case['cmds']) > 1 and not ctx.replay:
                small = vlib.shrink(case['cmds'], lambda cs: fails(dict(case, cmds=cs)))
                case = dict(case, cmds=small)
                err, pos, r = run_impl(exe, case)
                want, oks = expected(case)
            nviol += 1
            res.count('VIOLATING cases, src ' + case.get('src', 'replay').split(':')[0])
            res.violation({'what': err or 'cursor after the search commands is not where the property puts it',
                           'input': case, 'keys': keys_of(case).decode('utf-8', 'replace'),
                           'expected': {'cursor': want, 'found': oks}, 'observed': {'cursor': pos},
                           'replay_cmd': 'python3 tools/check.py C13 --replay <this file>'})
            continue
        # the "not found" message when the only command fails
        if len(case['cmds']) == 1 and case['text']:
            said = b'not found' in r.out or b'bad offset' in r.out
            if said != (not oks[0]) and case['cmds'][0][0] != 'A':
                if case['cmds'][0][1] and has_word_atoms(case['cmds'][0][1]) and said == (not expected(case, hide=True)[1][0]):
                    res.violation({'what': 'left neighbour hidden by suffix matching: \\< or \\> right after the position a scan starts from'}, kf='KF-LCTX')
                    continue
                res.violation({'what': 'failure message and outcome disagree', 'input': case, 'expected': {'found': oks}, 'observed': {'message': said}})
    res.extra['known_finding_classifier'] = 'KF-LCTX: pattern has \\< or \\>, observed cursor = property evaluated with the left neighbour of each scan start hidden'
