"""C14 -- :s rewrites exactly the leftmost non-overlapping matches.

Implementation: the real editor (`vi -s -e`), observables = `%p` output and the written file.
Model: the extracted Coq model of ex_arg / re_read / ec_substitute / replace (coq/SubstDefs.v), whose
matcher (a Section variable) is instantiated with the offsets that /repo's own rstr_find reports on
every suffix of the line (harness/probe_rstr.c, request tb: no flag on the whole line, RE_NOTBOL on the later searches, as
ec_substitute does).  That table is also compared with the table of the extracted MODEL of rstr_make / rstr_find
(coq/SubstEngineDefs.v engine_find, driver request ef), the matcher the composed theorems C14_*_engine / C14_notbol_* speak about.
Oracle: an independent Python implementation of "replace the successive leftmost non-overlapping
matches found by scanning the ORIGINAL line" with Python's re on translated patterns (real left
context for \\< \\>, ^ only at the true line start, one character stepped over after any empty match).
"""
import json, os, glob, re
import vlib

GROUP = 'subst'
TRUSTED = ["Python 3 `re` (backtracking, leftmost, greedy, left-biased) on translated patterns as the independent reference of the failing-input search",
           "convention of the reference: the scan stops when the unscanned rest of the line is empty (as the editor does), so `s/x*/-/g` on `ab` is `-a-b`"]

W = '[0-9A-Za-z_\\x80-\\U0010ffff]'
MSG = re.compile(rb'"[^"\n]*"  \[=\d+\]  \[[rw]\]')
DELIMS = '/,#:;'
LITS = ['a', 'a', 'b', 'b', 'c', 'A', 'B', 'x', 'é', '€', '1', ' ', '-', '_', '/', ',', '.', '*', '+', '?', '(', ')', '|', '$', '^', '\\', '[']
META = '.*+?()|$^\\[{'


def hx(b):
    return vlib.hx(b)


class Pat:
    def __init__(self, nv, py, nullable, word=False, bol=False, pynb=None):
        self.nv, self.py, self.nullable, self.word, self.bol = nv, py, nullable, word, bol
        self.pynb = py if pynb is None else pynb          # the translation in which ^ can never hold (searches on a rest of the line)


BOL = lambda: Pat('^', '^', True, bol=True, pynb='(?!)')


def py_char(c, ic):
    if ic and c.isascii() and c.isalpha():
        return '[%s%s]' % (c.lower(), c.upper())
    return re.escape(c)


def gen_char(rng, ic):
    c = rng.choice(LITS)
    nv = ('\\' + c) if c in META else c
    return Pat(nv, py_char(c, ic), False)


def gen_class(rng, ic):
    neg = rng.chance(1, 3)
    items_nv, items_py = [], []
    for _ in range(rng.range(1, 3)):
        if rng.chance(1, 3):
            lo, hi = rng.choice([('a', 'c'), ('A', 'C'), ('0', '9'), ('a', 'z')])
            items_nv.append('%s-%s' % (lo, hi))
            items_py.append('%s-%s' % (lo, hi))
            if ic and lo.isalpha():
                items_py.append('%s-%s' % (lo.swapcase(), hi.swapcase()))
        else:
            c = rng.choice(['a', 'b', 'c', 'A', 'x', 'é', ' ', '_', '1', ',', '/'])
            items_nv.append(c)
            items_py.append(re.escape(c))
            if ic and c.isascii() and c.isalpha():
                items_py.append(c.swapcase())
    return Pat('[%s%s]' % ('^' if neg else '', ''.join(items_nv)), '[%s%s]' % ('^' if neg else '', ''.join(items_py)), False)


def gen_atom(rng, ic, depth):
    t = rng.below(10)
    if t < 5:
        return gen_char(rng, ic)
    if t < 6:
        return Pat('.', '.', False)
    if t < 8:
        return gen_class(rng, ic)
    if depth > 0:
        p = gen_alt(rng, ic, depth - 1, top=False)
        return Pat('(' + p.nv + ')', '(' + p.py + ')', p.nullable, p.word, p.bol, '(' + p.pynb + ')')
    return gen_char(rng, ic)


def gen_piece(rng, ic, depth):
    a = gen_atom(rng, ic, depth)
    t = rng.below(12)
    if a.nullable or a.word or a.bol or t < 6:
        return a
    if len(a.nv) > 1 and not (a.nv[0] in '([' or (a.nv[0] == '\\' and len(a.nv) == 2)):
        return a
    op, nul = [('*', True), ('*', True), ('+', False), ('?', True), ('{1,2}', False), ('{2}', False)][t - 6]
    return Pat(a.nv + op, a.py + op, nul, pynb=a.pynb + op)


def gen_seq(rng, ic, depth, top):
    parts = []
    n = rng.choice([1, 1, 2, 2, 3])
    for i in range(n):
        if rng.chance(1, 7):
            if rng.chance(1, 2):
                parts.append(Pat('\\<', '(?<!%s)(?=%s)' % (W, W), True, word=True))
            else:
                parts.append(Pat('\\>', '(?<=%s)(?!%s)' % (W, W), True, word=True))
        parts.append(gen_piece(rng, ic, depth))
    if rng.chance(1, 10):
        parts.append(Pat('\\>', '(?<=%s)(?!%s)' % (W, W), True, word=True))
    nv = ''.join(p.nv for p in parts)
    py = ''.join(p.py for p in parts)
    return Pat(nv, py, all(p.nullable for p in parts), any(p.word for p in parts), any(p.bol for p in parts), ''.join(p.pynb for p in parts))


def gen_alt(rng, ic, depth, top):
    alts = [gen_seq(rng, ic, depth, top)]
    if rng.chance(1, 4):
        alts.append(gen_seq(rng, ic, depth, top))
    if not top and rng.chance(1, 8):     # (^|x) / (x|$)
        if rng.chance(1, 2):
            alts.insert(0, BOL())
        else:
            alts.append(Pat('$', '\\Z', True))
    return Pat('|'.join(a.nv for a in alts), '|'.join(a.py for a in alts), any(a.nullable for a in alts),
               any(a.word for a in alts), any(a.bol for a in alts), '|'.join(a.pynb for a in alts))


CLASSES = {'alpha': ('a-zA-Z', 'a-zA-Z', 'b'), 'digit': ('0-9', '0-9', '1'), 'upper': ('A-Z', 'A-Za-z', 'B'), 'lower': ('a-z', 'a-zA-Z', 'b'),
           'alnum': ('a-zA-Z0-9', 'a-zA-Z0-9', '1'), 'space': (' \\t\\r\\n\\v\\f', ' \\t\\r\\n\\v\\f', ' '), 'word': ('a-zA-Z0-9_', 'a-zA-Z0-9_', '_')}


def gen_bracket(rng, ic):
    """a bracket expression aimed at the bracket scanners (brk_len, re_groupcount): a backslash as first, middle
    or LAST member (inside [...] it is an ordinary member), ']' as first member, [:class:]; returns (Pat, a character it matches)"""
    neg = rng.chance(1, 4)
    mem = [rng.choice(['a', 'b', 'x', '1', '_', 'é']) for _ in range(rng.range(1, 2))]
    nv_items, py_items = list(mem), []
    for c in mem:
        py_items.append(re.escape(c) + (c.swapcase() if ic and c.isascii() and c.isalpha() else ''))
    sample = mem[0]
    form = rng.below(8)
    if form in (0, 1, 2):                    # backslash first / middle / last
        pos = [0, len(nv_items) // 2 if len(nv_items) > 1 else 0, len(nv_items)][form]
        if form == 1 and len(nv_items) == 1:
            nv_items.append('b'); py_items.append('b' + ('B' if ic else ''))
            pos = 1
        nv_items.insert(pos, '\\'); py_items.insert(pos, '\\\\')
        if rng.chance(1, 3):
            sample = '\\'
    elif form == 3:                          # ']' first member, maybe a backslash last as well
        nv_items.insert(0, ']'); py_items.insert(0, '\\]')
        if rng.chance(1, 2):
            nv_items.append('\\'); py_items.append('\\\\')
        if rng.chance(1, 3):
            sample = ']'
    elif form in (4, 5, 6):                  # [:class:] alone, with members, with a backslash last
        name = rng.choice(sorted(CLASSES))
        rng_nv, rng_ic, smp = CLASSES[name]
        nv_items.insert(rng.below(len(nv_items) + 1), '[:%s:]' % name)
        py_items.append(rng_ic if ic else rng_nv)
        if form == 6:
            nv_items.append('\\'); py_items.append('\\\\')
        if rng.chance(1, 2):
            sample = smp
    # form 7: plain members
    nv = '[%s%s]' % ('^' if neg else '', ''.join(nv_items))
    py = '[%s%s]' % ('^' if neg else '', ''.join(py_items))
    if neg:
        sample = rng.choice(['z', '-', '€'])
    return Pat(nv, py, False), sample


def gen_bracket_groups(rng, ic):
    """bracket expression(s), escaped parentheses and one to four capture groups that the replacement
    references: the number of groups the set matcher reports must not depend on what the brackets contain.
    Returns (Pat, text the pattern matches, replacement tokens)"""
    nv, py, text = [], [], []
    if rng.chance(1, 3):
        nv.append('x'); py.append(py_char('x', ic)); text.append('x')
    br, smp = gen_bracket(rng, ic)
    nv.append(br.nv); py.append(br.py); text.append(smp)
    ngrp = rng.range(1, 4)
    for k in range(ngrp):
        t = rng.below(7)
        if t == 0:                           # an escaped parenthesis between the real groups
            c = rng.choice('()')
            nv.append('\\' + c); py.append(re.escape(c)); text.append(c)
        if t == 1:                           # a second bracket between the groups
            b2, s2 = gen_bracket(rng, ic)
            nv.append(b2.nv); py.append(b2.py); text.append(s2)
        body = rng.choice([('x', 'x'), ('ab', 'ab'), ('b|c', 'c'), ('a*', 'aa'), ('[a\\]', '\\'), ('\\(', '('), ('.', 'é')])
        inner_py = {'x': py_char('x', ic), 'ab': py_char('a', ic) + py_char('b', ic), 'b|c': py_char('b', ic) + '|' + py_char('c', ic),
                    'a*': py_char('a', ic) + '*', '[a\\]': '[a%s\\\\]' % ('A' if ic else ''), '\\(': '\\(', '.': '.'}[body[0]]
        opt = rng.chance(1, 5) and body[0] != 'a*'
        nv.append('(' + body[0] + ')' + ('?' if opt else '')); py.append('(' + inner_py + ')' + ('?' if opt else ''))
        text.append('' if opt and rng.chance(1, 2) else body[1])
    toks = []
    for _ in range(rng.range(1, 4)):
        if rng.chance(1, 4):
            c = rng.choice(['<', '>', '-', '€'])
            toks.append((c, 'lit', c))
        else:
            dgt = str(rng.range(1, min(9, ngrp + 1)))
            toks.append(('\\' + dgt, 'grp', int(dgt)))
    return Pat(''.join(nv), ''.join(py), False), ''.join(text), toks


def gen_pattern(rng, ic):
    t = rng.below(20)
    if t == 0:
        return rng.choice([BOL(), Pat('$', '\\Z', True), Pat('\\<', '(?<!%s)(?=%s)' % (W, W), True, word=True),
                           Pat('\\>', '(?<=%s)(?!%s)' % (W, W), True, word=True), Pat('x*', py_char('x', ic) + '*', True),
                           Pat('^$', '^\\Z', True, bol=True, pynb='(?!)')])
    p = gen_alt(rng, ic, 2, top=True)
    nv, py, nb = p.nv, p.py, p.pynb
    bol = p.bol
    if rng.chance(1, 5) and '|' not in nv:
        nv, py, nb, bol = '^' + nv, '^' + py, '(?!)' + nb, True
    elif rng.chance(1, 8) and '|' not in nv:
        nv, py, nb = nv + '$', py + '\\Z', nb + '\\Z'
    return Pat(nv, py, p.nullable, p.word, bol, nb)


# ---------------------------------------------------------------------------------------------
# the anchor stream: ^ and $ inside alternations and groups, and patterns whose TEXT starts with ^ but that are
# not anchored as a whole (or are anchored and continue with a real regex construct).  ec_substitute searches the
# rest of a line under RE_NOTBOL after its first replacement: only a ^ atom may notice that flag, every other
# alternative must still be found.  Each pattern comes with sample texts its branches match, so that lines with
# 0..4 matches (one of them at column 0 in half of the cases) can be planted.

def p_lit(s, ic):
    return Pat(''.join(('\\' + c) if c in META else c for c in s), ''.join(py_char(c, ic) for c in s), s == '')


def p_cat(*ps):
    return Pat(''.join(p.nv for p in ps), ''.join(p.py for p in ps), all(p.nullable for p in ps), any(p.word for p in ps),
               any(p.bol for p in ps), ''.join(p.pynb for p in ps))


def p_alt(*ps):
    return Pat('|'.join(p.nv for p in ps), '|'.join(p.py for p in ps), any(p.nullable for p in ps), any(p.word for p in ps),
               any(p.bol for p in ps), '|'.join(p.pynb for p in ps))


def p_grp(p):
    return Pat('(' + p.nv + ')', '(' + p.py + ')', p.nullable, p.word, p.bol, '(' + p.pynb + ')')


EOL = lambda: Pat('$', '\\Z', True)


def anchor_piece(rng, ic, simple=False):
    """(Pat, texts it matches); simple = a plain literal only"""
    t = rng.below(8 if simple else 20)
    if t < 8:
        s = rng.choice(['a', 'b', 'a', 'b', 'ab', 'ba', 'x', 'é', 'ü', '€', ' ', 'aé', '1'])
        return p_lit(s, ic), [s]
    cls = lambda: Pat('[ab]', '[abAB]' if ic else '[ab]', False)
    if t == 8:
        return Pat(' +', ' +', False), [' ', '  ', '   ']
    if t == 9:
        return Pat('a*', py_char('a', ic) + '*', True), ['', 'a', 'aa']
    if t == 10:
        return Pat('a+', py_char('a', ic) + '+', False), ['a', 'aaa']
    if t == 11:
        return cls(), ['a', 'b']
    if t == 12:
        c = cls()
        return Pat(c.nv + '+', c.py + '+', False), ['ab', 'ba', 'b', 'aab']
    if t == 13:
        return Pat('.', '.', False), ['c', 'é', '€']
    if t == 14:
        return Pat('a*b', py_char('a', ic) + '*' + py_char('b', ic), False), ['b', 'ab', 'aab']
    if t == 15:
        return Pat('x?', py_char('x', ic) + '?', True), ['', 'x']
    if t == 16:
        return p_grp(p_lit('a', ic)), ['a']
    if t == 17:
        return Pat('é+', 'é+', False), ['é', 'éé']
    if t == 18:
        return Pat('[^ab ]', '[^abAB ]' if ic else '[^ab ]', False), ['c', 'é', '-']
    return Pat('b{1,2}', py_char('b', ic) + '{1,2}', False), ['b', 'bb']


ANCHOR_SHAPES = ['^A|B', 'B|^A', '(^A|B)', '(B|^A)', '^A|B$', 'A$|^B', '^ +| +$', '(^|C)A', '(A$|B)', '^A (regex)', '^A|B|C', 'C|^A|B',
                 '^(A)|(B)', '^A|^B', '^A$|B', 'A|^', '^|A', '(^A)|B', 'C(^A|B)', '\\^A|B', '^A|B (literals)', '^(A|B)', 'A($|C)', '^A|B (literals)',
                 '^A|B', 'B|^A', '^AB|B']


def gen_anchor_pattern(rng, ic):
    """returns (shape, Pat, sample texts, replacement tokens or None)"""
    shape = rng.choice(ANCHOR_SHAPES)
    lit = shape.endswith('(literals)')
    A, sa = anchor_piece(rng, ic, lit)
    B, sb = anchor_piece(rng, ic, lit)
    C, sc = anchor_piece(rng, ic, True)
    toks = None
    smp = sa + sb
    if shape in ('^A|B', '^A|B (literals)'):
        p = p_alt(p_cat(BOL(), A), B)
    elif shape == 'B|^A':
        p = p_alt(B, p_cat(BOL(), A))
    elif shape == '(^A|B)':
        p = p_grp(p_alt(p_cat(BOL(), A), B))
    elif shape == '(B|^A)':
        p = p_grp(p_alt(B, p_cat(BOL(), A)))
    elif shape == '^A|B$':
        p = p_alt(p_cat(BOL(), A), p_cat(B, EOL()))
    elif shape == 'A$|^B':
        p = p_alt(p_cat(A, EOL()), p_cat(BOL(), B))
    elif shape == '^ +| +$':
        bl = Pat(' +', ' +', False)
        p = p_alt(p_cat(BOL(), bl), p_cat(bl, EOL()))
        smp = [' ', '  ', 'ab', 'cd', ' ']
    elif shape == '(^|C)A':
        p = p_cat(p_grp(p_alt(BOL(), C)), A)
        smp = sa + [sc[0] + sa[-1]]
    elif shape == '(A$|B)':
        p = p_grp(p_alt(p_cat(A, EOL()), B))
    elif shape == '^A (regex)':
        A, sa = anchor_piece(rng, ic)
        B, sb = anchor_piece(rng, ic)
        p = p_cat(BOL(), A, B) if rng.chance(1, 2) else p_cat(BOL(), A)
        smp = sa + [sa[-1] + sb[-1], sa[0] + sb[0]]
    elif shape == '^A|B|C':
        p = p_alt(p_cat(BOL(), A), B, C)
        smp += sc
    elif shape == 'C|^A|B':
        p = p_alt(C, p_cat(BOL(), A), B)
        smp += sc
    elif shape == '^(A)|(B)':
        p = p_alt(p_cat(BOL(), p_grp(A)), p_grp(B))
        toks = [('[', 'lit', '['), ('\\1', 'grp', 1), ('\\2', 'grp', 2), (']', 'lit', ']')]
    elif shape == '^A|^B':
        p = p_alt(p_cat(BOL(), A), p_cat(BOL(), B))
    elif shape == '^A$|B':
        p = p_alt(p_cat(BOL(), A, EOL()), B)
    elif shape == 'A|^':
        p = p_alt(A, BOL())
    elif shape == '^|A':
        p = p_alt(BOL(), A)
    elif shape == '(^A)|B':
        p = p_alt(p_grp(p_cat(BOL(), A)), B)
    elif shape == 'C(^A|B)':
        p = p_cat(C, p_grp(p_alt(p_cat(BOL(), A), B)))
        smp = [sc[0] + sb[-1], sc[0] + sa[-1]] + sa
    elif shape == '\\^A|B':
        p = p_alt(p_cat(p_lit('^', ic), A), B)
        smp = ['^' + sa[-1]] + sb
    elif shape == '^(A|B)':
        p = p_cat(BOL(), p_grp(p_alt(A, B)))
    elif shape == 'A($|C)':
        p = p_cat(A, p_grp(p_alt(EOL(), C)))
        smp = sa + [sa[-1] + sc[0]]
    else:                                   # '^AB|B'
        p = p_alt(p_cat(BOL(), A, B), B)
        smp = [sa[-1] + sb[-1]] + sb
    return shape, p, [s for s in smp], toks


def gen_anchor_line(rng, smp):
    fill = ['c', 'z', ' ', '-', '€', 'é', 'cz', ' c']
    toks = []
    for _ in range(rng.choice([0, 1, 2, 3, 3, 4, 5, 6, 8])):
        toks.append(rng.choice(smp) if rng.chance(3, 5) else rng.choice(fill))
    if toks and rng.chance(1, 2):
        toks[0] = rng.choice(smp)           # a match at column 0
    if toks and rng.chance(1, 4):
        toks[-1] = rng.choice(smp)          # ... and at the end of the line
    return ''.join(toks)


def gen_rep(rng):
    toks = []       # (source text before delimiter escaping, kind, value)
    for _ in range(rng.choice([0, 1, 1, 2, 3, 4])):
        t = rng.below(10)
        if t < 4:
            c = rng.choice(['X', 'Y', '-', 'é', '€', ' ', '&', '[', ']', '/', ',', 'n', 'g', 'g', 'c', 'p'])
            toks.append((c, 'lit', c))
        elif t < 8:
            d = rng.choice('0011223456789')
            toks.append(('\\' + d, 'grp', int(d)))
        elif t < 9:
            toks.append(('\\\\', 'lit', '\\'))
        else:
            c = rng.choice(['n', 'a', '&', '.', 'é', '-', 'g'])
            toks.append(('\\' + c, 'lit', c))
    return toks


# ---------------------------------------------------------------------------------------------
# the flag stream: the g flag is the byte g AFTER the closing delimiter of the replacement and nothing else.  Replacements
# are made of g and of the other letters ex implementations read as flags (literal, escaped, next to group references,
# next to multi-byte characters); every (pattern, buffer, replacement) is run three times: .../rep/g  .../rep/  .../rep
# (no closing delimiter), on lines planted with two or more matches so that "first match only" and "every match" differ.

FLAG_WORDS = ['g', 'g', 'gg', 'dog', 'G', 'c', 'p', 'i', 'I', 'r', 'n', 'l', '&', '~', '#', 'kg', 'gé', '€g', ' g', 'g ', '<g>', 'X']


def gen_flag_rep(rng):
    toks = []
    for _ in range(rng.choice([1, 1, 2, 2, 3])):
        t = rng.below(10)
        if t < 5:
            w = rng.choice(FLAG_WORDS)
            toks.append((w, 'lit', w))
        elif t < 7:
            c = rng.choice(['g', 'g', 'c', 'p', 'n', '&'])
            toks.append(('\\' + c, 'lit', c))           # \g stands for g
        elif t < 9:
            d = rng.choice('0011')
            toks.append(('\\' + d, 'grp', int(d)))
        else:
            toks.append(('\\\\', 'lit', '\\'))
    if not any('g' in t[2] for t in toks if t[1] == 'lit') and rng.chance(3, 4):
        toks.insert(rng.below(len(toks) + 1), ('g', 'lit', 'g'))
    return toks


def gen_flag_pattern(rng, ic):
    """(Pat, texts it matches); one pattern in six contains the letter g itself (a g in the PATTERN is not a flag either)"""
    t = rng.below(12)
    if t < 2:
        w = rng.choice(['g', 'dog', 'gg', 'ag'])
        return p_lit(w, ic), [w]
    if t == 2:
        return p_grp(Pat('[0-9]', '[0-9]', False)), ['5', '7', '0']
    if t == 3:
        return Pat('x*', py_char('x', ic) + '*', True), ['', 'x', 'xx']
    if t == 4:
        w = rng.choice(['cat', 'é', 'ab'])
        return p_grp(p_lit(w, ic)), [w]
    return anchor_piece(rng, ic)


def gen_flag_line(rng, smp):
    fill = ['z', ' ', '-', 'g', 'é', ' g ', 'c']
    n = rng.choice([2, 2, 3, 3, 4, 5])
    toks = []
    for i in range(n):
        toks.append(rng.choice(smp))
        if rng.chance(2, 3):
            toks.append(rng.choice(fill))
    if rng.chance(1, 4):
        toks.insert(0, rng.choice(fill))
    return ''.join(toks)


# ---------------------------------------------------------------------------------------------
# the interval stream: counted repetitions X{m,} X{m,n} X{n} with m >= 2 (and the controls {0,} {1,} + *) on runs of X whose
# length is m-1, m, m+1, 2m-1, 2m, 2m+1, 3m+1, n, n+1 ...: an open-ended interval must take the WHOLE run (any length >= m,
# not only multiples of m), a bounded one at most n, and what is left of the run is searched again under g.

def gen_interval_pattern(rng, ic):
    """returns (shape, Pat, unit texts, m, replacement tokens)"""
    t = rng.below(11)
    grp = False
    if t < 3:
        c = rng.choice(['x', 'a', 'b', 'é', '€', '1'])
        body, units = p_lit(c, ic), [c]
    elif t == 3:
        body, units = Pat('[0-9]', '[0-9]', False), list('0123456789')
    elif t == 4:
        body, units = Pat('[ab]', '[abAB]' if ic else '[ab]', False), ['a', 'b']
    elif t == 5:
        body, units, grp = p_grp(p_lit('ab', ic)), ['ab'], True
    elif t == 6:
        body, units, grp = p_grp(p_alt(p_lit('a', ic), p_lit('bc', ic))), ['a', 'bc'], True
    elif t == 7:
        body, units = Pat('.', '.', False), ['x', 'é', ' ', 'q']
    elif t == 8:
        body, units = Pat('\\.', '\\.', False), ['.']
    elif t == 9:
        body, units, grp = p_grp(Pat('[a-c]', '[a-cA-C]' if ic else '[a-c]', False)), ['a', 'b', 'c'], True
    else:
        body, units = Pat('[^ -]', '[^ -]', False), ['x', 'é', 'a', '7']
    m = rng.choice([2, 2, 2, 2, 3, 3, 4])
    f = rng.below(12)
    if f < 6:
        op, shape = '{%d,}' % m, '{m,}'
    elif f < 8:
        n = m + rng.choice([0, 1, 1, 2, 3])
        op, shape = '{%d,%d}' % (m, n), '{m,n}'
    elif f < 10:
        op, shape = '{%d}' % m, '{m}'
    else:
        op, shape = rng.choice([('{0,}', '{0,}'), ('{1,}', '{1,}'), ('+', '+'), ('*', '*')])
    rep = Pat(body.nv + op, body.py + op, op in ('{0,}', '*'))
    ctx = rng.below(9)
    if ctx == 0:
        p, shape = p_cat(BOL(), rep), '^' + shape
    elif ctx == 1:
        p, shape = p_cat(rep, EOL()), shape + '$'
    elif ctx == 2:
        p, shape = p_cat(p_lit('-', ic), rep), 'c' + shape
    elif ctx == 3:
        p, shape = p_cat(rep, p_lit('-', ic)), shape + 'c'
    elif ctx == 4:
        p, shape = p_alt(rep, p_lit('z', ic)), shape + '|c'
    elif ctx == 5 and not grp:
        p, shape, grp = p_grp(rep), '(' + shape + ')', True
    else:
        p = rep
    toks = rng.choice([[('<', 'lit', '<'), ('\\0', 'grp', 0), ('>', 'lit', '>')], [('Y', 'lit', 'Y')], [], [('[', 'lit', '['), ('\\0', 'grp', 0), (']', 'lit', ']')]])
    if grp and rng.chance(1, 2):
        toks = [('[', 'lit', '['), ('\\1', 'grp', 1), ('|', 'lit', '|'), ('\\0', 'grp', 0), (']', 'lit', ']')]
    return shape, p, units, m, toks


def gen_interval_line(rng, units, m):
    lens = [m - 1, m, m + 1, m + 1, 2 * m - 1, 2 * m, 2 * m + 1, 2 * m + 1, 3 * m + 1, 3 * m - 1, 1, m + 2]
    out = []
    for i in range(rng.choice([1, 1, 2, 2, 3, 4])):
        if i or rng.chance(1, 2):
            out.append(rng.choice([' ', '-', 'z', ' - ', 'z-']))
        out.append(''.join(rng.choice(units) for _ in range(rng.choice(lens))))
    if rng.chance(1, 3):
        out.append(rng.choice([' ', '-', 'z']))
    return ''.join(out)


# ---------------------------------------------------------------------------------------------
# the backslash stream: patterns and replacements that END in a run of backslashes in front of an explicitly typed
# delimiter.  A backslash is read together with the byte after it, so a delimiter behind an even run closes (the text ends in
# escaped backslashes), behind an odd run it is an escaped delimiter and the text goes on.  Lines hold  a\  and  a<delim>
# side by side, so that taking one for the other changes the buffer.

def gen_bslash_case(rng, d):
    """(Pat, sample texts, replacement tokens)"""
    base = rng.choice(['a', 'a', 'a', 'ab', 'é', '', 'x'])
    nb = rng.choice([1, 1, 1, 2, 2, 3])                 # literal backslashes at the end of the pattern (2 nb in the source)
    text = base + '\\' * nb
    if rng.chance(1, 3):                                 # ... followed by a literal delimiter: an odd run in the source
        text += d + rng.choice(['', '', 'b', '1'])
    pat = p_lit(text, 0)
    other = rng.choice([c for c in '/,#:;' if c != d])
    smp = [text, text, base + '\\' * (nb - 1) + d, base + '\\' * nb + d, base + d, base + '\\' * (nb + 1), base + other, base + '\\' * nb + 'X',
           base + '\\' * (nb - 1) + d + 'X']
    toks = []
    for _ in range(rng.choice([0, 1, 1, 2])):
        c = rng.choice(['X', 'Y', 'g', d, '-', 'é'])
        toks.append((c, 'lit', c))
    if rng.chance(1, 4):
        toks.append(('\\0', 'grp', 0))
    if rng.chance(1, 2):                                 # the replacement ends in one or two literal backslashes as well
        for _ in range(rng.choice([1, 1, 2])):
            toks.append(('\\\\', 'lit', '\\'))
    return pat, smp, toks


def gen_bslash_line(rng, smp):
    toks = []
    for _ in range(rng.choice([1, 2, 2, 3, 4])):
        toks.append(rng.choice(smp))
        toks.append(rng.choice([' ', ' ', 'z', '-', '']))
    return ''.join(toks)


# ---------------------------------------------------------------------------------------------
# the address stream: :s behind addresses that contain searches.  ex_region() evaluates /re/ and ?re? through ex_search(),
# which stores re as the remembered pattern (ex_kwdset) -- the same static buffer the command's own pattern goes to and
# from which ec_substitute fetches the pattern it compiles (ex_kwd).  The order is "address first, then the command's
# own pattern": with a non-empty own pattern the lines found by the ADDRESS pattern are rewritten with the OWN pattern
# (and the own pattern is what a later s//../ reuses); with an empty own pattern (/re/s//new/) the last address pattern
# is reused.  Address pattern and own pattern are always different regular expressions, the lines hold matches of both,
# the replacement refers to the groups of the own pattern.

ADDR_WORDS = ['foo', 'END', 'b', 'é', 'a1', 'x y', 'ab', '€', 'x', 'o', 'q7']


def gen_addr_pat(rng, ic):
    """a pattern for a search address: (Pat, texts it matches, where a planted text must stand: '' / 'bol' / 'eol')"""
    t = rng.below(12)
    if t < 4:
        w = rng.choice(ADDR_WORDS)
        return p_lit(w, ic), [w], ''
    if t == 4:
        w = rng.choice(ADDR_WORDS)
        return p_cat(BOL(), p_lit(w, ic)), [w], 'bol'
    if t == 5:
        w = rng.choice(ADDR_WORDS)
        return p_cat(p_lit(w, ic), EOL()), [w], 'eol'
    if t == 6:                               # groups of its own: \1 \2 must not expand against THEM
        return p_cat(p_grp(p_lit('fo', ic)), p_grp(p_lit('o', ic))), ['foo'], ''
    if t == 7:
        return p_cat(p_grp(Pat('[0-9]', '[0-9]', False)), p_grp(Pat('[a-z]', '[a-zA-Z]' if ic else '[a-z]', False))), ['1a', '7q', '2b'], ''
    if t == 8:
        return Pat('[A-Z]+', '[A-Za-z]+' if ic else '[A-Z]+', False), ['END', 'B', 'AB'], ''
    p, smp = anchor_piece(rng, ic)
    return p, smp, ''


def gen_addr_own(rng, ic):
    """the pattern of the command itself with a replacement that refers to its groups: (Pat, texts it matches, replacement tokens)"""
    lit = lambda s: (s, 'lit', s)
    grp = lambda k: ('\\%d' % k, 'grp', k)
    t = rng.below(10)
    if t < 2:
        lo = Pat('[a-z]', '[a-zA-Z]' if ic else '[a-z]', False)
        return p_cat(p_grp(lo), p_grp(Pat('[0-9]', '[0-9]', False))), ['a1', 'b2', 'q7', 'x0'], [grp(2), grp(1)]
    if t == 2:
        x = Pat('x+', py_char('x', ic) + '+', False)
        y = Pat('(y)?', '(' + py_char('y', ic) + ')?', True)
        return p_cat(p_grp(x), y), ['x', 'xxy', 'xy', 'xx'], [lit('['), grp(1), lit('|'), grp(2), lit(']')]
    if t == 3:
        w = rng.choice(['x', 'ab', 'é', 'o', 'b'])
        return p_grp(p_lit(w, ic)), [w], rng.choice([[grp(1), grp(1)], [lit('<'), grp(1), lit('>')], [grp(0), lit('-'), grp(1)]])
    if t == 4:
        a, b = rng.choice([('a', 'b'), ('x', 'y'), ('o', 'é')])
        return p_alt(p_grp(p_lit(a, ic)), p_grp(p_lit(b, ic))), [a, b], [lit('('), grp(1), lit(','), grp(2), lit(')')]
    if t == 5:
        return Pat('x', py_char('x', ic), False), ['x'], rng.choice([[lit('y')], [lit('Y'), grp(0)], []])
    p, smp = anchor_piece(rng, ic)
    toks = rng.choice([[lit('X')], [lit('<'), grp(0), lit('>')], [grp(1), lit('_')], [], [lit('é'), grp(0)]])
    if rng.chance(1, 4):
        toks = gen_rep(rng)
    return p, smp, toks


def gen_addr_lines(rng, nl, sa, place, sp, sb):
    """lines that hold matches of the address pattern(s) (sa, sb) and of the own pattern (sp) side by side"""
    fill = ['c', 'z', ' ', '-', 'w ', ' - ', 'zz']
    lines = []
    for i in range(nl):
        kind = rng.below(8)                  # 0: neither; 1-3: both; 4: address only; 5-6: own only; 7: second address + own
        toks = []
        for _ in range(rng.choice([1, 2, 2, 3, 4])):
            r = rng.below(4)
            if r == 0 or kind == 0:
                toks.append(rng.choice(fill))
            elif kind in (1, 2, 3):
                toks.append(rng.choice(sp) if rng.chance(1, 2) else rng.choice(sa))
            elif kind == 4:
                toks.append(rng.choice(sa))
            elif kind in (5, 6):
                toks.append(rng.choice(sp))
            else:
                toks.append(rng.choice(sp) if rng.chance(1, 2) else rng.choice(sb))
            if rng.chance(1, 2):
                toks.append(' ')
        if kind in (1, 2, 3, 4):
            if place == 'bol':
                toks.insert(0, rng.choice(sa))
            elif place == 'eol':
                toks.append(rng.choice(sa))
            elif not any(t in sa for t in toks):
                toks.insert(rng.below(len(toks) + 1), rng.choice(sa))
        if kind in (1, 2, 3) and not any(t in sp for t in toks):
            toks.insert(rng.below(len(toks) + 1) if place != 'bol' else len(toks), ' ' + rng.choice(sp))
        lines.append(''.join(toks))
    return lines


ADDR_FORMS = ['/A/', '/A/', '/A/', 'N,/A/', 'N,/A/', 'N;/A/', 'N;/A/', 'N;?A?,.', 'N;?A?,.', '?A?', '?A?', '/A/+1', '/A/-1', '?A?+1', 'N;/A/+1', 'N,/A/-1',
              '/A/,/B/', '/A/;/B/', '/A/,$', '/A/;+1', 'N;/A/;.', '/B/;?A?', '/A/+2-1', 'N', '%', '', 'N,M', '.,/A/']


def gen_addr(rng, nl, A, B, form=None):
    """an address: (form, text, terms, separators); a term is (kind, value, offset) with kind n . $ / ? or '' (nothing typed)"""
    form = form or rng.choice(ADDR_FORMS)
    n = rng.range(1, nl)
    m = rng.range(n, nl)
    terms, seps = [], []
    i = 0
    while i < len(form):
        c = form[i]
        if c in ',;':
            seps.append(c)
            i += 1
            continue
        if c in '/?':
            terms.append([c, A if form[i + 1] == 'A' else B, 0])
            i += 3
        elif c == 'N':
            terms.append(['n', n, 0]); i += 1
        elif c == 'M':
            terms.append(['n', m, 0]); i += 1
        elif c in '.$':
            terms.append([c, None, 0]); i += 1
        elif c == '%':
            terms.append(['%', None, 0]); i += 1
        elif c in '+-':
            j = i + 1
            while j < len(form) and form[j].isdigit():
                j += 1
            if not terms or len(seps) == len(terms):
                terms.append(['', None, 0])
            terms[-1][2] += int(form[i:j])
            terms[-1].append(form[i:j])
            i = j
    out = []
    for k, t in enumerate(terms):
        kind, val = t[0], t[1]
        if kind == 'n':
            out.append(str(val))
        elif kind in '/?' and kind:
            out.append(kind + esc_delim(val.nv, kind) + kind)
        else:
            out.append(kind)
        out.append(''.join(t[3:]))
        if k < len(seps):
            out.append(seps[k])
    return form, ''.join(out), [tuple(t[:3]) for t in terms], seps


def esc_delim(text, d):
    """escape the delimiter where it stands as an ordinary character (not already behind a backslash)"""
    out = []
    i = 0
    while i < len(text):
        c = text[i]
        if c == '\\' and i + 1 < len(text):
            out.append(text[i:i + 2])
            i += 2
            continue
        out.append('\\' + c if c == d else c)
        i += 1
    return ''.join(out)


def expand_py(m, toks):
    out = []
    for _, kind, v in toks:
        if kind == 'lit':
            out.append(v)
        else:
            try:
                g = m.group(v)
            except (IndexError, re.error):
                g = None
            out.append(g or '')
    return ''.join(out)


def py_subst(content, rx, rxnb, toks, g, lctx):
    """the reference (lctx=False) and the variant that reproduces the recorded root cause KF-LCTX:
    every later search sees only the rest of the line"""
    out = []
    pos, n, first, k = 0, len(content), True, 0
    while True:
        if lctx and not first:
            m = rxnb.search(content[pos:])
            off = pos
        else:
            m = rx.search(content, pos)
            off = 0
        if not m:
            break
        s, e = m.start() + off, m.end() + off
        out.append(content[pos:s])
        out.append(expand_py(m, toks))
        k += 1
        pos = e
        if e == s:                      # one character is stepped over after every empty match
            if pos < n:
                out.append(content[pos])
                pos += 1
            else:
                break
        if pos >= n or not g:
            break
        first = False
    out.append(content[pos:])
    return ''.join(out), k


def canon_out(b):
    return MSG.sub(b'', b)


def run(ctx):
    res = ctx.res
    rng = ctx.rng
    vi_real = vlib.build_vi()
    # a broken scan loop can append to its buffer for ever: cap the address space of every editor run
    vi = os.path.join(vlib.tmpdir(), 'vi_limited')
    with open(vi, 'w') as f:
        f.write('#!/bin/sh\nulimit -v 1048576\nexec %s "$@"\n' % vi_real)
    os.chmod(vi, 0o755)
    probe = vlib.build_probe('rstr', includes=['rstr'])
    model = ctx.model('subst')
    res.rule = ('one evaluation = one ex script (option ic/noic, one or two :s commands with ranges, %p, w) on a small buffer, compared as %p output and written file; '
                'non-trivial = at least one line is rewritten; distinct = distinct (commands, buffer)')
    cases = []          # dict(ic, lines[str], cmds[dict(range=(b,e), text, pat(Pat or None), toks, g)], kind, expect?, kf?)
    if ctx.replay:
        rp = json.load(open(ctx.replay))
        for c in rp.get('input', []):
            cases.append(dict(c, kind='replay', corpus=True))
    else:
        for fn in sorted(glob.glob(os.path.join(vlib.VERIF, 'corpus', 'C14-*.json'))):
            for c in json.load(open(fn)).get('cases', []):
                cases.append(dict(c, kind='corpus', corpus=True))
        ncases = 2500 if ctx.quick else 40000
        alpha = ['a', 'a', 'b', 'b', 'c', 'A', 'B', 'x', 'x', 'é', '€', '1', ' ', ' ', '-', '_', '/', ',', '.', '*', 'aa', 'ab', 'xx', 'a b']
        for i in range(ncases):
            ic = rng.below(2)
            nl = rng.choice([1, 1, 2, 3, 4])
            lines = [''.join(rng.choice(alpha) for _ in range(rng.choice([0, 1, 2, 3, 4, 6, 9]))) for _ in range(nl)]
            cmds = []
            bracket_case = False
            ncmd = 2 if rng.chance(1, 5) else 1
            for j in range(ncmd):
                d = rng.choice(DELIMS)
                if j == 1 and rng.chance(2, 3):
                    pat = None                      # empty pattern: reuse
                else:
                    for _ in range(20):
                        pat = gen_pattern(rng, ic)
                        if '(a*)*' not in pat.nv:
                            break
                toks = gen_rep(rng)
                if pat is not None and rng.chance(1, 5):
                    pat, text, toks = gen_bracket_groups(rng, ic)
                    k = rng.below(nl)
                    lines[k] = rng.choice(['', 'z', 'a ', '\\']) + text + rng.choice(['', 'z', ' b', text])
                    bracket_case = True
                g = rng.chance(3, 5)
                form = rng.below(6)
                b = rng.range(1, nl)
                e = rng.range(b, nl)
                if form < 2:
                    rtxt, rg = '%', (1, nl)
                elif form < 4:
                    rtxt, rg = '%d' % b, (b, b)
                else:
                    rtxt, rg = '%d,%d' % (b, e), (b, e)
                rep_src = ''.join(t[0] for t in toks)
                flags = ('g' if g else '')
                closing = True
                if not g and rng.chance(1, 6):
                    closing = False             # s/a/b  without the closing delimiter
                body = 's' + d + (esc_delim(pat.nv, d) if pat else '') + d + esc_delim(rep_src, d) + (d + flags if closing else '')
                cmds.append({'range': rg, 'text': rtxt + body, 'body': body, 'pat': pat, 'toks': toks, 'g': g})
            kind = 'two commands' if ncmd == 2 else 'one command'
            if bracket_case:
                kind += ', bracket expression + referenced groups'
            cases.append({'ic': ic, 'lines': lines, 'cmds': cmds, 'kind': kind, 'corpus': False})
        # the anchor stream: every (pattern, buffer) is run twice, with and without g
        for i in range(350 if ctx.quick else 6000):
            ic = 1 if rng.chance(1, 4) else 0
            shape, pat, smp, toks = gen_anchor_pattern(rng, ic)
            nl = rng.choice([1, 1, 1, 2, 3])
            lines = [gen_anchor_line(rng, smp) for _ in range(nl)]
            if toks is None:
                toks = gen_rep(rng) if rng.chance(1, 3) else rng.choice([[('X', 'lit', 'X')], [], [('<', 'lit', '<'), ('\\0', 'grp', 0), ('>', 'lit', '>')],
                                                                         [('\\1', 'grp', 1), ('_', 'lit', '_')], [('é', 'lit', 'é')]])
            d = rng.choice(DELIMS)
            b = rng.range(1, nl)
            rtxt, rg = rng.choice([('%', (1, nl)), ('%', (1, nl)), ('%d' % b, (b, b)), ('%d,%d' % (b, nl), (b, nl))])
            again = rng.chance(1, 6)            # a second command that reuses the pattern (and g again or not)
            g2 = rng.chance(1, 2)
            toks2 = gen_rep(rng)
            for g in (True, False):
                cmds = []
                body = 's' + d + esc_delim(pat.nv, d) + d + esc_delim(''.join(t[0] for t in toks), d) + d + ('g' if g else '')
                cmds.append({'range': rg, 'text': rtxt + body, 'body': body, 'pat': pat, 'toks': toks, 'g': g})
                if again:
                    body = 's' + d + d + esc_delim(''.join(t[0] for t in toks2), d) + d + ('g' if g2 else '')
                    cmds.append({'range': (1, nl), 'text': '%' + body, 'body': body, 'pat': None, 'toks': toks2, 'g': g2})
                cases.append({'ic': ic, 'lines': lines, 'cmds': cmds, 'kind': 'anchor stream', 'corpus': False, 'anchor': shape})

        def one_cmd(rtxt, rg, d, pat, toks, g, closing=True):
            body = 's' + d + (esc_delim(pat.nv, d) if pat else '') + d + esc_delim(''.join(t[0] for t in toks), d) + (d + ('g' if g else '') if closing else '')
            return {'range': rg, 'text': rtxt + body, 'body': body, 'pat': pat, 'toks': toks, 'g': g}

        def pick_range(nl):
            b = rng.range(1, nl)
            return rng.choice([('%', (1, nl)), ('%', (1, nl)), ('%d' % b, (b, b)), ('%d,%d' % (b, nl), (b, nl))])

        # the flag stream: rep/g, rep/, rep  -- the replacement is made of g and other flag-like bytes
        for i in range(260 if ctx.quick else 5000):
            ic = 1 if rng.chance(1, 4) else 0
            pat, smp = gen_flag_pattern(rng, ic)
            toks = gen_flag_rep(rng)
            nl = rng.choice([1, 1, 2, 3])
            lines = [gen_flag_line(rng, smp) for _ in range(nl)]
            d = rng.choice(DELIMS)
            rtxt, rg = pick_range(nl)
            again = rng.chance(1, 6)
            toks2 = gen_flag_rep(rng)
            for form, (g, closing) in (('rep/g', (True, True)), ('rep/', (False, True)), ('rep', (False, False))):
                cmds = [one_cmd(rtxt, rg, d, pat, toks, g, closing)]
                if again:                   # the remembered pattern with a new replacement: the flag is read afresh
                    cmds.append(one_cmd('%', (1, nl), d, None, toks2, not g, True))
                cases.append({'ic': ic, 'lines': lines, 'cmds': cmds, 'kind': 'flag stream', 'corpus': False, 'flagform': form})
        # the interval stream: each (pattern, buffer) with and without g
        for i in range(300 if ctx.quick else 6000):
            ic = 1 if rng.chance(1, 5) else 0
            shape, pat, units, m, toks = gen_interval_pattern(rng, ic)
            nl = rng.choice([1, 1, 2, 3])
            lines = [gen_interval_line(rng, units, m) for _ in range(nl)]
            d = rng.choice(DELIMS)
            rtxt, rg = pick_range(nl)
            for g in (True, False):
                cases.append({'ic': ic, 'lines': lines, 'cmds': [one_cmd(rtxt, rg, d, pat, toks, g)], 'kind': 'interval stream', 'corpus': False,
                              'interval': shape, 'interval_m': m, 'interval_units': units})
        # the backslash stream: each (pattern, buffer) with and without g, closing delimiter always typed
        for i in range(220 if ctx.quick else 4000):
            d = rng.choice(DELIMS)
            pat, smp, toks = gen_bslash_case(rng, d)
            nl = rng.choice([1, 1, 2, 3])
            lines = [gen_bslash_line(rng, smp) for _ in range(nl)]
            rtxt, rg = pick_range(nl)
            again = rng.chance(1, 6)
            for g in (True, False):
                cmds = [one_cmd(rtxt, rg, d, pat, toks, g)]
                if again:
                    cmds.append(one_cmd('%', (1, nl), d, None, [('Z', 'lit', 'Z')], True))
                cases.append({'ic': 0, 'lines': lines, 'cmds': cmds, 'kind': 'backslash stream', 'corpus': False, 'bslash': True})

        # the address stream: :s behind search addresses; own pattern non-empty (the address pattern only selects the lines)
        # or empty (the address pattern is reused); then up to two more commands: s//rep/ , a bare s (= repeat: remembered
        # pattern AND remembered replacement), another :s behind a search address
        for i in range(520 if ctx.quick else 9000):
            ic = 1 if rng.chance(1, 4) else 0
            for _ in range(20):
                A, sa, place = gen_addr_pat(rng, ic)
                B, sb, _pl = gen_addr_pat(rng, ic)
                P, sp, toks = gen_addr_own(rng, ic)
                if len({A.nv, B.nv, P.nv}) == 3:
                    break
            nl = rng.choice([3, 4, 5, 5, 6, 7])
            lines = gen_addr_lines(rng, nl, sa, place, sp, sb)
            cmds = []
            ncmd = rng.choice([1, 1, 2, 2, 2, 3])
            for j in range(ncmd):
                d = rng.choice(DELIMS)
                style = rng.below(8) if j else rng.below(5)
                if j == 0 or style >= 5:
                    form, loc, terms, seps = gen_addr(rng, nl, A, B)
                else:
                    form, loc, terms, seps = gen_addr(rng, nl, A, B, rng.choice(['%', 'N', '', 'N,M', '/B/', '/A/', '%', 'N;/B/']))
                g = rng.chance(1, 2)
                if j == 0:
                    own = None if rng.chance(1, 4) else P             # /A/s//new/ : one in four
                    tk = toks if own is not None or rng.chance(1, 2) else [('N', 'lit', 'N'), ('\\1', 'grp', 1)]
                    cm = one_cmd(loc, (0, 0), d, own, tk, g, closing=not (not g and rng.chance(1, 8)))
                elif style in (0, 1, 5):                               # s//rep/ : the remembered pattern
                    cm = one_cmd(loc, (0, 0), d, None, rng.choice([[('Z', 'lit', 'Z')], [('z', 'lit', 'z'), ('\\1', 'grp', 1)], [('\\0', 'grp', 0), ('\\0', 'grp', 0)]]), g)
                elif style in (2, 6):                                  # bare s: remembered pattern and remembered replacement, no flag
                    cm = {'range': (0, 0), 'text': loc + 's', 'body': 's', 'pat': None, 'toks': None, 'g': False, 'bare': True}
                else:                                                  # a new pattern (the second address pattern's turn to differ)
                    P2, _sp2, toks2 = gen_addr_own(rng, ic)
                    if P2.nv in (A.nv, B.nv):
                        P2, toks2 = P, toks
                    cm = one_cmd(loc, (0, 0), d, P2, toks2, g)
                cm.update({'loc': loc, 'addr': {'terms': terms, 'seps': seps}, 'form': form})
                cmds.append(cm)
            cases.append({'ic': ic, 'lines': lines, 'cmds': cmds, 'kind': 'address stream', 'corpus': False, 'addr': True})

        # the word-literal stream (generated LAST: the streams above draw the same numbers as before): a plain literal with \\< and / or \\>
        # -- the fast path of rstr.c -- whose occurrences OVERLAP, on lines where an occurrence that fails its boundary test is followed by one
        # that begins inside it (aa\\> in xaaa, \\<a-a in ba-a-a, abab\\> in ababab): the scan has to try every start offset
        for i in range(120 if ctx.quick else 2500):
            ic = 1 if rng.chance(1, 5) else 0
            unit, k = rng.choice([('a', 2), ('a', 3), ('ab', 2), ('a-', 2), ('é', 2), ('a ', 2), ('ba', 2), ('aA', 2) if ic else ('x', 2)])
            lit = (unit * k).rstrip(' -') if unit[-1] in ' -' else unit * k
            wb, we = rng.choice([(True, False), (False, True), (True, True)])
            parts = []
            if wb:
                parts.append(Pat('\\<', '(?<!%s)(?=%s)' % (W, W), True, word=True))
            parts.append(p_lit(lit, ic))
            if we:
                parts.append(Pat('\\>', '(?<=%s)(?!%s)' % (W, W), True, word=True))
            pat = p_cat(*parts)
            nl = rng.choice([1, 1, 2])
            lines = []
            for _ in range(nl):
                segs = []
                for _ in range(rng.choice([1, 2, 2, 3])):
                    run = unit * (k + rng.below(3))
                    if unit[-1] in ' -' and rng.chance(2, 3):
                        run = run.rstrip(' -')
                    segs.append(rng.choice(['', '', 'b', 'x', '-', 'é']) + run + rng.choice(['', '', 'a', 'b', '-', unit[0]]))
                lines.append(rng.choice([' ', ' ', '-', '  ']).join(segs))
            toks = rng.choice([[('X', 'lit', 'X')], [('<', 'lit', '<'), ('\\0', 'grp', 0), ('>', 'lit', '>')], []])
            d = rng.choice(DELIMS)
            for g in (True, False):
                body = 's' + d + esc_delim(pat.nv, d) + d + esc_delim(''.join(t[0] for t in toks), d) + d + ('g' if g else '')
                cases.append({'ic': ic, 'lines': lines, 'cmds': [{'range': (1, nl), 'text': '%' + body, 'body': body, 'pat': pat, 'toks': toks, 'g': g}],
                              'kind': 'word-literal stream', 'corpus': False, 'wordlit': True})

    # ---------------------------------------------------------------- implementation
    def script_of(c):
        s = ('se ic\n' if c['ic'] else 'se noic\n') + ''.join(cm['text'] + '\n' for cm in c['cmds']) + '%p\nw o\nq!\n'
        return s.encode('utf-8')

    def file_of(c):
        return ''.join(l + '\n' for l in c['lines']).encode('utf-8')

    def run_impl(c, timeout=10):
        return vlib.run_ex(vi, script_of(c), files={'f': file_of(c)}, args=['f'], readback=['o'], timeout=timeout)

    ncorp = len([c for c in cases if c.get('corpus')])
    outs = vlib.pmap(run_impl, cases[:ncorp])
    if any(r.timed_out for r in outs):
        # the corpus already hangs: do not wait for thousands of generated scripts to time out
        cases = cases[:ncorp]
    else:
        outs += vlib.pmap(run_impl, cases[ncorp:])
    nhang = 0
    for i, (c, r) in enumerate(zip(cases, outs)):
        if r.crashed() and nhang < 6:
            r2 = run_impl(c, timeout=30)
            outs[i] = r2
            if r2.crashed():
                nhang += 1
                res.violation({'what': c.get('what') if c.get('kf') else 'the editor %s on a substitute script' % ('hangs' if r2.timed_out else 'crashes (rc=%s)' % r2.rc),
                               'input': [{'ic': c['ic'], 'lines': c['lines'], 'cmds': [{'range': list(cm['range']), 'text': cm['text']} for cm in c['cmds']],
                                          **({'expect': c['expect']} if 'expect' in c else {})}],
                               'script': script_of(c).decode('utf-8', 'replace'), 'stderr': r2.err[-1500:].decode('utf-8', 'replace')}, kf=c.get('kf'))

    # ---------------------------------------------------------------- model (rounds over the command index)
    mstate = [{'kwd': 'none', 'dir': 0, 'row': 0, 'rep': '-', 'buf': [l.encode('utf-8') + b'\n' for l in c['lines']], 'ok': True, 'cut': False} for c in cases]
    ndis = [0]
    if model:
        for j in range(max([len(c['cmds']) for c in cases] + [2])):
            idx = [i for i, c in enumerate(cases) if len(c['cmds']) > j and mstate[i]['ok']]
            if not idx:
                break
            reqs = []
            for i in idx:
                cm = cases[i]['cmds'][j]
                text = cm['text']
                if 'loc' in cm:
                    # the MODEL evaluates the address (SubstAddrDefs.subst_head: ex_region with its searches -- matcher = engine_find --,
                    # THEN the command's own pattern): state = remembered pattern, its direction, remembered replacement, current row
                    st = mstate[i]
                    tail = text[len(cm['loc']):][1:]
                    reqs.append('hd %s %d %s %d %d %s %s %s' % (st['kwd'] if st['dir'] else '-', st['dir'], st['rep'], st['row'], cases[i]['ic'],
                                                               hx(cm['loc'].encode('utf-8')), hx(tail.encode('utf-8')), ' '.join(hx(l) for l in st['buf'])))
                    continue
                tail = text[text.index('s') + 1:]
                reqs.append('pre %s %s %s' % (mstate[i]['kwd'], mstate[i]['rep'], hx(tail.encode('utf-8'))))
            rc, out, err = vlib.run_lines(model, reqs, timeout=600)
            if rc != 0 or len(out) != len(reqs):
                res.disagree({'what': 'model driver (pre) failed rc=%d' % rc, 'stderr': err[-800:]})
                break
            treqs, tmap = [], []
            for i, o in zip(idx, out):
                d = dict(p.split('=', 1) for p in o.split(' '))
                st = mstate[i]
                if 'dir' in d:
                    if d['bad'] == 'fuel':
                        st['ok'], st['why'] = False, 'out of fuel in the address loop'
                        continue
                    st['dir'], st['row'] = int(d['dir']), int(d['row'])
                    st['region'] = st.get('region', []) + [(d['bad'], d['beg'], d['end'])]
                    rows = range(int(d['beg']), int(d['end']))
                else:
                    b, e = cases[i]['cmds'][j]['range']
                    rows = range(b - 1, e)
                st['kwd'], st['rep'], st['g'], st['pat'] = d['kwd'], d['rep'], d['g'], d['pat']
                if d['pat'] == 'none':
                    continue                    # error return: nothing changes
                for ln in rows:
                    treqs.append('tb %s %d %s' % (d['pat'], cases[i]['ic'], hx(st['buf'][ln])))
                    tmap.append((i, ln))
            rc, tout, err = vlib.run_lines(probe, treqs, timeout=900)
            if rc != 0 or len(tout) != len(treqs):
                res.disagree({'what': 'probe_rstr (tb) failed rc=%d' % rc, 'stderr': err[-800:], 'input': treqs[len(tout):len(tout) + 1]})
                break
            # second tie: the MODEL of the matcher (SubstEngineDefs.engine_find, what the composed theorems C14_*_engine and
            # C14_notbol_* speak about) must give, on every suffix of every addressed line and under both values of
            # RE_NOTBOL, the answers /repo's rstr_find gave
            uniq = sorted(set(treqs))
            rc, eout, err = vlib.run_lines(model, ['ef' + t[2:] for t in uniq], timeout=900)
            if rc != 0 or len(eout) != len(uniq):
                res.disagree({'what': 'model driver (ef) failed rc=%d' % rc, 'stderr': err[-800:], 'input': uniq[len(eout):len(eout) + 1]})
                break
            tb_of = dict(zip(treqs, tout))
            res.extra['matcher tables compared (engine_find model vs rstr_find)'] = res.extra.get('matcher tables compared (engine_find model vs rstr_find)', 0) + len(uniq)
            for t, eo in zip(uniq, eout):
                if eo.endswith(' cut=0') and tb_of[t].endswith(' cut=0') and eo != tb_of[t] and ndis[0] < 5:
                    ndis[0] += 1
                    w = t.split(' ')
                    res.disagree({'what': 'the model of rstr_make / rstr_find (engine_find) and /repo\'s rstr_find answer differently on a suffix of a line '
                                          '(format: path, then <offset>.<notbol>=<16 group pairs>)',
                                  'input': {'pattern': vlib.unhx(w[1]).decode('utf-8', 'replace'), 'ic': int(w[2]), 'line': vlib.unhx(w[3]).decode('utf-8', 'replace')},
                                  'implementation': tb_of[t], 'model': eo})
            rreqs = []
            for (i, ln), t in zip(tmap, tout):
                w = t.split(' ')
                if w[-1] != 'cut=0':
                    mstate[i]['cut'] = True
                if w[0] == 'path=x':
                    rreqs.append('run 0 - %s' % hx(mstate[i]['buf'][ln]))       # compile failure: no match anywhere
                else:
                    rreqs.append('run %s %s %s %s' % (mstate[i]['g'], mstate[i]['rep'], hx(mstate[i]['buf'][ln]), ' '.join(w[1:-1])))
            rc, rout, err = vlib.run_lines(model, rreqs, timeout=900)
            if rc != 0 or len(rout) != len(rreqs):
                res.disagree({'what': 'model driver (run) failed rc=%d' % rc, 'stderr': err[-800:]})
                break
            for (i, ln), o in zip(tmap, rout):
                if o.startswith('C '):
                    nl = vlib.unhx(o[2:])
                    # lbuf_edit(xb, text, i, i + 1) as the buffer core stores it (modelled by the C01/C04 groups, only
                    # mirrored here): text without a final newline gets one; empty text leaves no line.  Both arise
                    # only when the match swallowed the terminator (as under the repaired defect 86d0c64)
                    mstate[i]['buf'][ln] = nl if (nl == b'' or nl.endswith(b'\n')) else nl + b'\n'
                elif o != 'U':
                    mstate[i]['ok'] = False
                    mstate[i]['why'] = o

    # ---------------------------------------------------------------- the reference and the shrinker
    def ref_region(ad, buf, st):
        """the lines an address designates, evaluated left to right: ('ok', first row, last row + 1) / ('reject',) / ('skip',).
        A search /re/ (?re?) finds the next (previous) line after (before) the current one that has a match of re, without wrapping
        around, and leaves re behind as the remembered pattern; a ; makes the address before it the current line; of more than two
        addresses the last two count; an address that fails or lies outside the buffer rejects the command.  skip = outside what
        this reference defines (a row before the first line; a range that ends one line before it starts)."""
        rows = []
        terms, seps = ad['terms'], ad['seps']
        if len(terms) == 1 and terms[0][0] == '%':
            return ('ok', 0, len(buf))
        if not terms:
            return ('ok', st['xrow'], st['xrow'] + 1) if 0 <= st['xrow'] < len(buf) else ('reject',)
        for k, (kind, val, off) in enumerate(terms):
            if kind == 'n':
                row = val - 1
            elif kind == '$':
                row = len(buf) - 1
            elif kind in ('/', '?'):
                st['last'] = val
                try:
                    rx = re.compile(val.py)
                except re.error:
                    return ('skip',)
                step = 1 if kind == '/' else -1
                row = st['xrow'] + step
                while 0 <= row < len(buf) and not rx.search(buf[row]):
                    row += step
                if not 0 <= row < len(buf):
                    return ('reject',)
            else:
                row = st['xrow']
            row += off
            if row < 0 or (row >= len(buf) and k < len(seps) and seps[k] == ';'):
                return ('skip',)
            rows.append(row)
            if k < len(seps) and seps[k] == ';':
                st['xrow'] = row
        b, e = (rows[-1], rows[-1]) if len(rows) == 1 else (rows[-2], rows[-1])
        if e == b - 1:
            return ('skip',)                # a,b with b one line before a: the editor takes it as an empty range, ex as an error -- not C14's business
        if b >= len(buf) or e >= len(buf) or e < b:
            return ('reject',)
        return ('ok', b, e + 1)

    def reference(c, lctx, trace=None):
        buf = list(c['lines'])
        st = {'xrow': 0, 'last': None}
        lastrep = []
        for cm in c['cmds']:
            if 'addr' in cm:
                r = ref_region(cm['addr'], buf, st)
                if trace is not None:
                    trace.append(r)
                if r[0] == 'skip':
                    return None
                if r[0] == 'reject':
                    continue                # the command is not executed: its pattern and replacement are not remembered either
                b, e = r[1], r[2]
            else:
                b, e = cm['range'][0] - 1, cm['range'][1]
            toks = lastrep if cm.get('bare') else cm['toks']
            lastrep = toks
            p = cm['pat'] or st['last']
            if p is None:
                continue
            st['last'] = p
            try:
                rx = re.compile(p.py)
                rxnb = re.compile(p.pynb)
            except re.error:
                return None
            for ln in range(b, e):
                buf[ln], _ = py_subst(buf[ln], rx, rxnb, toks, cm['g'], lctx)
        return ''.join(l + '\n' for l in buf).encode('utf-8')

    def failing(c):
        want = reference(c, False)
        if want is None:
            return False
        r = run_impl(c)
        got = r.files.get('o')
        if r.crashed() or got is None or got == want:
            return False
        if any(cm['pat'] and cm['pat'].word for cm in c['cmds']) and got == reference(c, True):
            return False                # the recorded root cause KF-LCTX, not the violation being shrunk
        return True

    shrunk = [0]

    def shrink_case(c):
        """one command, one line, then delta debugging on the characters of that line"""
        if shrunk[0] >= 3:
            return c
        shrunk[0] += 1
        best = c
        if c.get('addr'):
            # addresses are evaluated by the reference on whatever buffer is left: drop trailing commands, then whole lines
            for k in range(1, len(best['cmds'])):
                cand = dict(best, cmds=best['cmds'][:k])
                if failing(cand):
                    best = cand
                    break
            if len(best['lines']) > 1:
                sm = vlib.shrink(list(best['lines']), lambda sub: len(sub) > 0 and failing(dict(best, lines=list(sub))), max_steps=40)
                if sm:
                    best = dict(best, lines=list(sm))
            return best
        if len(best['cmds']) == 2:
            for j in (1, 0):
                if best['cmds'][j]['pat'] is not None:
                    cand = dict(best, cmds=[best['cmds'][j]])
                    if failing(cand):
                        best = cand
                        break
        if len(best['lines']) > 1:
            for l in best['lines']:
                cand = dict(best, lines=[l], cmds=[dict(cm, range=(1, 1), text='1' + cm['body']) for cm in best['cmds']])
                if failing(cand):
                    best = cand
                    break
        if len(best['lines']) == 1 and len(best['lines'][0]) > 1:
            sm = vlib.shrink(list(best['lines'][0]), lambda sub: failing(dict(best, lines=[''.join(sub)])), max_steps=40)
            best = dict(best, lines=[''.join(sm)])
        return best

    # ---------------------------------------------------------------- compare
    def desc(c, expect=None):
        d = {'ic': c['ic'], 'lines': c['lines'], 'cmds': [dict({'range': list(cm['range']), 'text': cm['text']}, **({'loc': cm['loc']} if 'loc' in cm else {}))
                                                        for cm in c['cmds']]}
        if 'expect' in c:
            d['expect'] = c['expect']
        elif expect is not None:
            d['expect'] = expect.decode('utf-8').split('\n')[:-1]
        if 'kf' in c:
            d['kf'] = c['kf']
        return d

    for i, (c, r) in enumerate(zip(cases, outs)):
        res.evaluations += 1
        res.count(c['kind'])
        if r.crashed():
            continue
        got_file = r.files.get('o')
        got_p = canon_out(r.out)
        orig = file_of(c)
        if got_file is None:
            res.violation({'what': 'the script did not write its file', 'input': [desc(c)], 'stdout': r.out[-300:].decode('utf-8', 'replace')})
            continue
        if got_p != got_file:
            res.violation({'what': '%p output and written file differ', 'input': [desc(c)], 'observed': {'p': got_p.decode('utf-8', 'replace'), 'file': got_file.decode('utf-8', 'replace')}})
            continue
        # correspondence with the model
        st = mstate[i]
        if model and not st['cut']:
            if not st['ok']:
                res.disagree({'what': 'model answers %s' % st.get('why'), 'input': [desc(c)], 'implementation': got_file.decode('utf-8', 'replace')})
            elif b''.join(st['buf']) != got_file:
                res.disagree({'what': 'buffer after the substitute commands', 'input': [desc(c)], 'implementation': got_file.decode('utf-8', 'replace'),
                              'model': b''.join(st['buf']).decode('utf-8', 'replace')})
        if st['cut']:
            res.count('discarded (depth cut)')
            continue
        # oracle
        try:
            got_file.decode('utf-8')
        except UnicodeDecodeError:
            res.violation({'what': 'valid UTF-8 text became invalid', 'input': [desc(c)], 'observed': got_file.hex()})
            continue
        if c.get('corpus'):
            want = ''.join(l + '\n' for l in c['expect']).encode('utf-8')
            if got_file != orig:
                res.nontriv(json.dumps(desc(c), sort_keys=True))
            if got_file != want:
                res.violation({'what': c.get('what', 'corpus case: buffer after the substitute differs from the recorded expectation'), 'input': [desc(c)],
                               'expected': want.decode('utf-8'), 'observed': got_file.decode('utf-8', 'replace')}, kf=c.get('kf'))
            continue
        variants = {'ideal': reference(c, False), 'lctx': reference(c, True)}
        if variants['ideal'] is None:
            res.count('skipped (reference cannot express the pattern)')
            continue
        if got_file != orig:
            res.nontriv(script_of(c) + b'\0' + orig)
        pats = [cm['pat'] for cm in c['cmds'] if cm['pat']]
        for p in pats:
            if p.nullable:
                res.count('pattern can match the empty string')
            if p.word:
                res.count('pattern has \\< or \\>')
        if any(t[1] == 'grp' for cm in c['cmds'] for t in (cm['toks'] or [])):
            res.count('replacement references a group')
        if any(ord(ch) > 127 for l in c['lines'] for ch in l):
            res.count('multi-byte line')
        if c.get('anchor'):
            cm = c['cmds'][0]
            res.count('anchor stream, shape %s' % c['anchor'])
            res.count('anchor stream, %s' % ('with g' if cm['g'] else 'without g'))
            if cm['g']:
                rx0 = re.compile(cm['pat'].py)
                for ln in range(cm['range'][0] - 1, cm['range'][1]):
                    _, k = py_subst(c['lines'][ln], rx0, rx0, cm['toks'], True, False)
                    res.count('anchor stream, line with %s matches' % (k if k < 4 else '4 or more'))
                    m0 = rx0.search(c['lines'][ln])
                    if m0 and m0.start() == 0 and k >= 2:
                        res.count('anchor stream, first of several matches at column 0')
        if c.get('flagform'):
            cm = c['cmds'][0]
            rx0 = re.compile(cm['pat'].py)
            multi = any(py_subst(c['lines'][ln], rx0, rx0, cm['toks'], True, False)[1] >= 2 for ln in range(cm['range'][0] - 1, cm['range'][1]))
            hasg = any('g' in t[2] for t in cm['toks'] if t[1] == 'lit')
            res.count('flag stream, form %s' % c['flagform'])
            if hasg and multi and not cm['g']:
                res.count('flag stream: no g flag, a g in the replacement, an addressed line with two or more matches')
            if hasg and multi and cm['g']:
                res.count('flag stream: g flag and a g in the replacement, an addressed line with two or more matches')
        if c.get('interval'):
            cm = c['cmds'][0]
            res.count('interval stream, operator %s' % re.sub(r'^[\^c(]|[$c)]$|\|c$', '', c['interval']))
            m, us = c['interval_m'], sorted(c['interval_units'], key=len, reverse=True)
            runs = re.findall('(?:%s)+' % '|'.join(re.escape(u) for u in us), ''.join(l + '\n' for l in c['lines'][cm['range'][0] - 1:cm['range'][1]]))
            if len(set(len(u) for u in us)) == 1 and any(len(r) // len(us[0]) > m and (len(r) // len(us[0])) % m for r in runs):
                res.count('interval stream: a run longer than m whose length is not a multiple of m')
        if c.get('bslash'):
            res.count('backslash stream, %s' % ('with g' if c['cmds'][0]['g'] else 'without g'))
        if c.get('wordlit'):
            res.count('word-literal stream, %s' % ('with g' if c['cmds'][0]['g'] else 'without g'))
        if c.get('addr'):
            tr = []
            reference(c, False, tr)
            for cm, r in zip(c['cmds'], tr):
                search = any(t[0] in ('/', '?') for t in cm['addr']['terms'])
                res.count('address stream, address %s: %s' % ('with a search' if search else 'without a search', {'ok': 'accepted', 'reject': 'rejected'}.get(r[0], r[0])))
                if search and r[0] == 'ok':
                    res.count('address stream, form %s' % cm['form'])
                    res.count('address stream: search address accepted, own pattern %s' % ('typed' if cm['pat'] else ('empty (s//rep/)' if not cm.get('bare') else 'none (bare s)')))
            # how many cases can tell "the own pattern" from "the address pattern": the rewrite with the address pattern in the own pattern's place differs
            cm0, r0 = c['cmds'][0], (tr[0] if tr else ('skip',))
            if cm0['pat'] and r0[0] == 'ok':
                last_addr = [t[1] for t in cm0['addr']['terms'] if t[0] in ('/', '?')]
                if last_addr:
                    alt = reference(dict(c, cmds=[dict(cm0, pat=last_addr[-1])]), False)
                    if alt is not None and alt != reference(dict(c, cmds=[cm0]), False):
                        res.count('address stream: first command has an own pattern and rewriting with the address pattern instead gives another buffer')
        if got_file == variants['ideal']:
            continue
        word = any(p.word for p in pats)
        v = {'what': 'buffer after :s differs from the leftmost-non-overlapping-matches reference', 'input': [desc(c, variants['ideal'])],
             'script': script_of(c).decode('utf-8'), 'expected': variants['ideal'].decode('utf-8'), 'observed': got_file.decode('utf-8', 'replace')}
        if word and got_file == variants['lctx']:
            v['what'] = 'a later search of :s///g sees only the rest of the line: \\< / \\> at its start are judged without the real left neighbour'
            res.violation(v, kf='KF-LCTX')
        else:
            res.count('VIOLATING cases, %s' % c['kind'].split(',')[0])
            c2 = shrink_case(c)
            if c2 is not c and failing(c2):
                want2 = reference(c2, False)
                got2 = run_impl(c2).files.get('o') or b''
                v = dict(v, input=[desc(c2, want2)], script=script_of(c2).decode('utf-8'), expected=want2.decode('utf-8'),
                         observed=got2.decode('utf-8', 'replace'), unshrunk=desc(c, variants['ideal']))
            res.violation(v)
    for c in cases[:400:67]:
        res.sample({'ic': c['ic'], 'lines': c['lines'], 'cmds': [cm['text'] for cm in c['cmds']]})
