"""Grammar of the command streams of C05 (exploration under ASan/UBSan).

The space is fixed here from the grammar of the commands the properties name (ex line commands with
every address form, substitute, global, registers, buffers, options, shell filters; vi motions,
operators, inserts, puts, registers, repeat, macros, counts, windows) and is not narrowed to
silence a finding.  Deliberate exclusions (DESIGN.md sections 4, 5 and the builder guide):
  * ^Z (kill(0, SIGSTOP)), NUL bytes;
  * :rk, :make, q quick-access, tags (:ta :tn :tp :tf :po, ^] ^T, gd);
  * shell commands other than  true / cat / tr / sort ; without a range they get </dev/null because
    the child would otherwise read the rest of the command stream from the inherited stdin;
  * '!' and '/' in file text and typed text (a yanked line can be executed with @ / :so, so text
    must not be able to spell a shell command or a path outside the case directory);
  * patterns with a loop whose body can match the empty string (known finding KF-EMPTY-LOOP,
    replayed separately);
  * counts above 300 in front of commands whose work is proportional to the count (inserts, puts,
    repeats), counts of a million and more in front of motions that loop count times, shell commands
    in the body of :g (one process per matching line), s///g in the body of :g (an empty-matching
    pattern doubles the addressed line once per matching line), macros that add a thousand lines:
    that is work proportional to what was asked for, not a hang;
  * file arguments that are absolute, contain .. or expand % / # with a suffix (path_safe: the
    harness must not write outside the case directory).
Every choice comes from the Rng that is passed in (SplitMix64, vlib.Rng).
"""

ESC = b'\x1b'
OPTIONS = ['ai', 'aw', 'hist', 'hl', 'hll', 'ic', 'lim', 'order', 'ru', 'shape', 'td', 'wa',
           'autoindent', 'highlight', 'highlightline', 'ignorecase', 'linelimit', 'ruler', 'textdirection', 'writeany', 'history', 'autowrite']
OPTVALS = {'td': [-2, -1, 0, 1, 2, 3], 'textdirection': [-2, -1, 0, 1, 2], 'lim': [-1, 0, 1, 2, 5, 20, 256, 100000], 'linelimit': [0, 1, 7, 256],
           'hist': [0, 1, 2, 50], 'history': [0, 3]}

ASCII_WORDS = ['a', 'b', 'ab', 'abc', 'foo', 'bar', 'x', 'aaaa', 'hello', 'The', 'quick', '0', '12', 'x_y', 'a-b', 'a.b', '(x)', '[y]', '{z}', '"q"',
               "it's", '\\', '\\n', '&', '%', '#', '~', '*', '+', '?', '|', '$', '^', '<', '>', '=', ':', ';', ',', '@', '`']
WIDE = ['中', '文', '日本', 'Ａ', '\U0001f600', 'あ']
COMB = ['é', 'à́', 'x‌', '́', 'ñ', '‍', 'क्ष']
RTL = ['ال', 'سلام', 'שלום', 'لا', 'ب', 'یک', 'م‌ی']
LATIN = ['é', 'naïve', 'ü', 'ß', '€']


def word(r):
    t = r.below(10)
    if t < 4:
        return r.choice(ASCII_WORDS)
    if t < 5:
        return r.choice(LATIN)
    if t < 6:
        return r.choice(WIDE)
    if t < 7:
        return r.choice(COMB)
    if t < 9:
        return r.choice(RTL)
    return r.choice(ASCII_WORDS) + r.choice(WIDE + COMB + RTL)


def text_line(r, maxw=12):
    """One line of valid UTF-8 text (str), no newline, no '!' and no '/'."""
    t = r.below(20)
    if t == 0:
        return ''
    if t == 1:
        return ' ' * r.range(1, 4) + '\t' + word(r)
    if t == 2:                       # long line: around the line limit option (256) and far beyond
        n = r.choice([100, 255, 256, 257, 300, 1023, 1025, 5000])
        w = word(r) or 'a'
        return ((w + ' ') * (n // (len(w) + 1) + 1))[:n]
    if t == 3:
        return '\t' * r.range(1, 3) + ' '.join(word(r) for _ in range(r.range(1, 4)))
    sep = ' ' if t < 17 else r.choice(['', '\t', '  '])
    return sep.join(word(r) for _ in range(r.range(1, maxw)))


def file_text(r):
    """bytes of a file, or None for 'no such file'."""
    t = r.below(12)
    if t == 0:
        return None
    if t == 1:
        return b''
    n = r.choice([1, 1, 2, 3, 5, 8, 13, 30, 60])
    s = '\n'.join(text_line(r) for _ in range(n))
    if t != 2:
        s += '\n'
    return s.encode('utf-8')


# ---------------------------------------------------------------------------------------------
# patterns (str).  A loop is only ever put on an atom that cannot match the empty string.

def lit(r):
    return r.choice(['a', 'b', 'ab', 'o', 'foo', 'x', 'l', 'e', ' ', 'é', '中', 'ا', 'ل', '́', 'A', '0', '\\.', '\\*', '\\\\', '-', '_'])


def klass(r):
    return r.choice(['.', '[ab]', '[^a]', '[a-z]', '[[:alpha:]]', '[[:digit:]]', '[[:space:]]', '[é中]', '[^ ]', '[]a]', '[a\\]]', '[[:word:]]', '[0-9]'])


def atom(r, depth=0):
    t = r.below(10)
    if t < 5:
        return lit(r)
    if t < 8:
        return klass(r)
    if depth > 1:
        return lit(r)
    body = [lit(r) + (klass(r) if r.chance(1, 3) else '') for _ in range(r.range(1, 3))]     # never empty, never looping
    return '(' + '|'.join(body) + ')'


def piece(r):
    a = atom(r)
    t = r.below(12)
    if t < 6:
        return a
    return a + r.choice(['*', '+', '?', '{2}', '{1,3}', '{0,2}', '{2,}', '*', '+'])


def pattern(r):
    t = r.below(20)
    if t == 0:
        return ''                                   # previous pattern
    if t == 1:                                      # malformed
        return r.choice(['(', ')', '[', '[a', 'a{', 'a{2', 'a{9,0}', 'a{3,1}', '*a', '+', '?', '\\', 'a\\', '(a', 'a)', '[[:foo:]]', 'a{99999}', 'a{4294967295}',
                         '\\(', '\\<', '\\>', '^', '$', '^$', 'a||b', '|', '()', '[^]', '[a-]', 'a{,}', 'a{1,2,3}', '(((((a)))))', '\\1', '(a)\\1', '{', '}'])
    if t == 2:
        return r.choice(['\\<', '^', '']) + ''.join(piece(r) for _ in range(r.range(1, 3))) + r.choice(['\\>', '$', ''])
    if t == 3:
        return '|'.join(''.join(piece(r) for _ in range(r.range(1, 2))) for _ in range(r.range(2, 3)))
    return ''.join(piece(r) for _ in range(r.range(1, 4)))


def nullable_loop(p):
    """Conservative textual test for a loop over a body that may be empty (excluded: KF-EMPTY-LOOP)."""
    depth = 0
    starts = []
    i = 0
    while i < len(p):
        c = p[i]
        if c == '\\':
            i += 2
            continue
        if c == '[':
            j = p.find(']', i + 2)
            i = j + 1 if j >= 0 else len(p)
            continue
        if c == '(':
            starts.append(i)
        elif c == ')' and starts:
            b = starts.pop()
            body = p[b + 1:i]
            nxt = p[i + 1:i + 2]
            if nxt in ('*', '+', '{') and (body == '' or any(ch in body for ch in '*?{|(') or body.startswith('^') or body.endswith('$')):
                return True
        i += 1
    return False


def repl(r):
    t = r.below(12)
    if t == 0:
        return ''
    if t == 1:
        return r.choice(['\\1', '\\2', '\\9', '\\0', '&', '\\&', '\\\\', '\\', '\\n', '\\/'])
    if t == 2:
        return '[' + '\\0' + ']' + r.choice(['\\1', ''])
    return r.choice(['X', 'yy', 'é', '中文', 'ا', '-', ' ', 'é', 'b'])


# ---------------------------------------------------------------------------------------------
# ex commands

def addr1(r, nlines):
    t = r.below(24)
    if t < 5:
        return str(r.range(1, max(1, nlines)))
    if t < 7:
        return '.'
    if t < 9:
        return '$'
    if t == 9:
        return "'" + r.choice('abxz')
    if t == 10:
        return '/' + safe_pat(r) + '/'
    if t == 11:
        return '?' + safe_pat(r) + '?'
    if t == 12:
        return r.choice(['+', '-', '+1', '-1', '+3', '-2', '.+1', '$-1', '.-1', '$+1', '++', '--', '+-+'])
    if t == 13:
        return str(r.choice([0, nlines + 1, nlines + 2, 99999, 2147483647, 4294967296]))
    if t == 14:
        return r.choice(['-5', '.-9', '$-99', '0-1', "'", "''", "'[", "']", '/', '?', '//', '??', '/a', '?b', "'A", "'1"])
    if t == 15:
        return str(r.range(1, max(1, nlines))) + r.choice(['+1', '-1', '+0', '+99', '-99'])
    return ''


def address(r, nlines):
    t = r.below(20)
    if t < 7:
        return ''
    if t < 11:
        return addr1(r, nlines)
    if t < 15:
        return addr1(r, nlines) + r.choice([',', ',', ';']) + addr1(r, nlines)
    if t == 15:
        return '%'
    if t == 16:
        return r.choice([',', ';', ',,', '1,2,3', '%,1', '1,%', '3,1', '$,1', '.;.;.', ',$', '1,', ';$'])
    if t == 17:
        return ','.join(addr1(r, nlines) for _ in range(r.range(3, 6)))
    return addr1(r, nlines) + ' ' * r.range(0, 2) + r.choice([',', ';']) + ' ' * r.range(0, 2) + addr1(r, nlines)


def safe_pat(r):
    for _ in range(20):
        p = pattern(r)
        if not nullable_loop(p):
            return p
    return 'a'


def reg(r):
    return r.choice(['a', 'b', 'x', 'z', 'A', '"', '1', '0', '.', ':', '/', '\\a', '\\', '-', 'é', ''])


def path_arg(r):
    return r.choice(['f.txt', 'g.txt', 'out.txt', 'new.txt', 'sub', '%', '#', '', 'f.txt', 'g.txt', '=f.txt', 'f.txt.bak', 'gx', 'a b', 'a\\ b',
                     'n' * 200, 'm' * 300, '中.txt', 'nosuch', '.', 'f.txt g.txt', '+3 f.txt', '+ g.txt', '+$ f.txt', '+s_a_b_ f.txt', '+' + 'p' * 100 + ' f.txt'])


def shell(r, has_input):
    c = r.choice(['true', 'cat', 'tr a-z A-Z', 'sort', 'cat f.txt', 'tr -d a', 'sort -r'])
    return c if has_input else c + ' </dev/null'


def simple_cmd(r, nlines, depth):
    """One ex command without a text block: str."""
    a = address(r, nlines)
    t = r.below(60)
    if depth > 0 and t in (45, 46, 47, 48, 49, 55):
        t = 5               # no shell command in the body of :g (one process per matching line: time grows with the buffer)
    if t < 4:
        return a + 'd' + r.choice(['', ' ', ' a', ' x'])
    if t < 7:
        return a + 'p'
    if t < 8:
        return a + '='
    if t < 10:
        return a + 'k' + r.choice(['a', ' a', 'b', 'x', ' x', '', 'A', '1', ' é'])
    if t < 12:
        return a + 'y' + r.choice(['', ' ']) + reg(r)
    if t < 14:
        return a + 'pu' + r.choice(['', ' ']) + reg(r)
    if t < 17:
        return 'u' if r.chance(2, 3) else 'redo'
    if t < 27:
        d = r.choice(['/', '/', '/', ',', '#', ':', 'x', '1', 'é'])
        p, rp = safe_pat(r), repl(r)
        if d != '/':
            p, rp = p.replace(d, ''), rp.replace(d, '')
        tail = r.choice(['', d, d + 'g', d + 'g', d + ' g', d + 'gg', d + 'x'])
        if depth > 0:           # :g running s///g with an empty-matching pattern on one line doubles it per matching line (2^n bytes: slow, not hung)
            tail = r.choice(['', d])
        return a + 's' + d + p + d + rp + tail
    if t < 29:
        return a + r.choice(['s', 's/', 's//', 's///', 's/a', 's/a/', 's\\', 's|', 's"', 's ', 'su', 'substitute/a/b/', '&', '~', '&&', 's/a/b/|p', 's/a/b/"c'])
    if t < 34:
        if depth > 1:
            return a + 'p'
        g = r.choice(['g', 'g', 'v', 'g!', 'global', 'vglobal'])
        d = r.choice(['/', '/', ',', '#'])
        p = safe_pat(r).replace(d, '')
        body = simple_cmd(r, nlines, depth + 1)
        if r.chance(1, 4):
            body += '|' + simple_cmd(r, nlines, depth + 1)
        return a + g + d + p + d + body
    if t < 38:
        o = r.choice(OPTIONS)
        k = r.below(6)
        if k == 0:
            return 'se no' + o
        if k == 1:
            return 'se ' + o
        if k == 2:
            return 'set ' + o + '=' + str(r.choice(OPTVALS.get(o, [0, 1, 2, -1, 99999999999])))
        if k == 3:
            return 'se ' + o + '=' + r.choice(['', 'x', '-', '1x', '=', '99999999999999999999'])
        if k == 4:
            return 'se ' + r.choice(['', 'nosuch', 'no', 'n', '=', '=1', 'no=', 'x' * 300, 'no' + 'y' * 508, 'ai ic', 'é=1'])
        return 'se ' + o + '=' + str(r.choice(OPTVALS.get(o, [0, 1])))
    if t < 40:
        return r.choice(['e', 'e!', 'ew', 'ew!', 'edit', 'edit!']) + ' ' + path_arg(r)
    if t < 42:
        return 'b' + r.choice(['', ' 0', ' 1', ' 2', ' 3', ' 99', ' -', ' +', ' !', ' ~', ' %', ' #', ' ^', ' x', '! 1', ' -1', ' 1x', ' é'])
    if t < 43:
        return r.choice(['n', 'prev', 'next', 'n!', 'n x'])
    if t < 45:
        return a + r.choice(['w', 'w!', 'w', 'w!']) + ' ' + r.choice(['out.txt', 'out2.txt', '', 'f.txt', '%', '#', 'new.txt', '中.txt', 'sub', 'o' * 300, 'f.bak'])
    if t < 46:
        return a + 'w !' + shell(r, True)
    if t < 48:
        return a + 'r ' + r.choice(['f.txt', 'g.txt', 'nosuch', '', '%', '#', 'sub', '!' + shell(r, False), '!' + shell(r, False)])
    if t < 50:
        return (a + '!' + shell(r, True)) if a else ('!' + shell(r, False))
    if t < 51:
        return 'ft' + r.choice(['', ' c', ' sh', ' txt', ' nosuch', ' ' + 'f' * 40, ' ' + 'f' * 300, ' é', '  c  '])
    if t < 52:
        return r.choice(['cm', 'cm!']) + r.choice(['', ' en', ' fa', ' ru', ' nosuch', ' ' + 'k' * 40, ' ' + 'k' * 300, ' é'])
    if t < 53:
        return 'ec ' + text_line(r, 4)[:200]
    if t < 55:
        return a + r.choice(['@', 'ra', '@ ', 'ra ']) + reg(r)
    if t < 56:
        return 'rx ' + r.choice(['a', 'b', 'x']) + ' ' + shell(r, False)
    if t < 57:
        return 'so ' + r.choice(['cmds.ex', 'f.txt', 'nosuch', '', '%', '#', 'sub'])
    if t < 58:
        return a
    if t < 59:
        return a + r.choice(['zz', 'foo', 'A', 'Q', 'ka', 'kk', 'dd', 'pp', 'xit?', '#', '*', '(', '\\', '|', '||', '"', '" comment', 'é', '中文', 'wx', 'abcdefghijklmnopqrstuvwxyz'])
    return simple_cmd(r, nlines, depth) + '|' + simple_cmd(r, nlines, depth)


def stretch(r, cmd):
    """Bring a command to just below / at / above the 512-byte limit."""
    target = r.choice([505, 509, 510, 511, 512, 513, 520, 600, 1023, 1100, 4200])
    n = len(cmd.encode('utf-8'))
    if n >= target:
        return cmd
    k = r.below(6)
    pad = target - n
    if k == 0:
        return cmd + ' ' * pad
    if k == 1:
        return cmd + 'x' * pad
    if k == 2:
        return ('1,' * (pad // 2 + 1))[:pad] + cmd
    if k == 3:
        return cmd + ('|p' * (pad // 2 + 1))[:pad]
    if k == 4:
        return cmd + ('é' * (pad // 2 + 1))[:pad // 2]
    return ' ' * pad + cmd


def ex_block(r, nlines):
    """Lines (list of str) of one generated ex command (text blocks make several)."""
    t = r.below(40)
    if t < 7:
        a = address(r, nlines)
        c = r.choice(['a', 'i', 'c', 'a', 'i', 'append', 'insert', 'change'])
        k = r.below(8)
        n = 0 if k == 0 else r.range(1, 4)
        body = [text_line(r) for _ in range(n)]
        body = [('. ' if b == '.' else b) for b in body]
        return [a + c] + body + ['.']
    if t < 8:
        return ['rs ' + r.choice(['a', 'b', 'x', '\\a', ''])] + [r.choice(['p', 'd', '1', 's/a/b/', 'xhelloESC', 'ixESC', 'dd', text_line(r, 3)]).replace('ESC', '\x1b') for _ in range(r.range(0, 2))] + ['.']
    if t < 9:
        return [stretch(r, simple_cmd(r, nlines, 0))]
    if t < 10:                                      # filter a register through a command (the register is set first)
        g = r.choice(['a', 'b', 'x'])
        return ['rs ' + g, text_line(r, 4), '.', 'rx ' + g + ' ' + shell(r, True), 'pu ' + g]
    if t < 11:                                      # truncated
        c = simple_cmd(r, nlines, 0)
        c = c[:r.range(0, max(0, len(c)))]
        if '!' in c and not c.endswith('</dev/null'):        # a cut shell command must not read the rest of the stream
            c = c.replace('!', '=')
        return [c]
    if t < 12:                                      # nonsense
        soup = ":%$.,;'/?+-|\\\"!=@&~ sgvakdp0123456789{}()[]*^<>é中"
        return [''.join(r.choice(soup) for _ in range(r.range(1, 30))).replace('!', '=')]
    return [simple_cmd(r, nlines, 0)]


EX_TAIL = b'.\n' * 40 + b'q!\n'

FILECMDS = ('w', 'wq', 'x', 'xa', 'xit', 'write', 'r', 'read', 'e', 'ew', 'edit', 'so', 'source', 'n', 'next', 'b', 'buffer', 'rx', 'make', 'rk', 'cd')
LOCSET = ".$0123456789'/?+-,;%"


def unsafe_path(arg):
    a = arg.strip()
    if a.startswith('!'):
        return '>' in a or '..' in a or ' /' in a.replace(' </dev/null', '')
    if a.startswith('+'):                       # +cmd in front of the file name
        a = a.split(' ', 1)[1] if ' ' in a else ''
    a = a.strip()
    return a.startswith('/') or a.startswith('~') or '..' in a or (('%' in a or '#' in a) and len(a) > 1) or a.startswith('\\/')


def path_safe(line):
    """Cheap static check of one ex command line (str): no file command (also inside :g bodies and after |) may name an
    absolute path, a path with .., or a % / # expansion with a suffix (an unnamed buffer expands % to "/")."""
    i, n = 0, len(line)
    while i < n:
        while i < n and line[i] in ': \t':
            i += 1
        while i < n and line[i] in LOCSET:          # addresses, as ex_loc reads them
            c = line[i]
            if c == "'" and i + 1 < n:
                i += 1
            elif c in '/?':
                i += 1
                while i < n and line[i] != c:
                    i += 2 if line[i] == '\\' and i + 1 < n else 1
            i += 1
        while i < n and line[i] in ' \t':
            i += 1
        j = i
        while j < n and line[j].isascii() and line[j].isalpha() and j - i < 16:
            j += 1
            if line[i:j] == 'k':
                break
        cmd = line[i:j]
        if j < n and line[j] in '!=@':
            if not cmd and line[j] == '!':
                return not unsafe_path('!' + line[j + 1:])
            j += 1
        rest = line[j:]
        if cmd in ('g', 'v', 'global', 'vglobal'):
            r2 = rest.lstrip(' \t')
            if not r2:
                return True
            d, k = r2[0], 1
            while k < len(r2) and r2[k] != d:
                k += 2 if r2[k] == '\\' and k + 1 < len(r2) else 1
            return path_safe(r2[k + 1:])
        k = 0                                   # the argument ends at an unescaped | (or a comment)
        while k < len(rest) and rest[k] not in '|"\n':
            k += 2 if rest[k] == '\\' and k + 1 < len(rest) else 1
        arg = rest[:k]
        if cmd in FILECMDS and unsafe_path(arg):
            return False
        if cmd == 's' or cmd.startswith('su'):  # the substitute's own delimiters may hide a |
            pass
        i = j + k + 1
    return True


def many_buffers(r, nlines):
    """A session that opens 17..24 distinct (mostly non-existent) paths -- more than the 16 slots of bufs[] -- mixed with
    buffer switches, deletions, next/prev, edits and writes: list of ex command lines (str)."""
    out = []
    n = r.range(17, 24)
    for i in range(1, n + 1):
        out.append(r.choice(['e', 'e!', 'e!', 'ew!', 'edit!']) + ' p%d.txt' % i)
        t = r.below(10)
        if t == 0:
            out.append('b ' + r.choice(['-', '+', '1', '2', '15', '16', '17', '#', '%', '^', '~', '!']))
        elif t == 1:
            out += ['a', text_line(r, 4), '.']
        elif t == 2:
            out.append(r.choice(['w!', 'w! q%d.txt' % i, 'n', 'prev', 'b', 'e! f.txt', 'e! #', 'b!', 'se wa']))
        elif t == 3:
            out.append(simple_cmd(r, nlines, 0))
    for _ in range(r.range(0, 6)):
        out.append(r.choice(['b -', 'b +', 'b !', 'b 3', 'b 17', 'b 20', 'b ~', 'b', 'e! p1.txt', 'e! p%d.txt' % r.range(1, 30), 'n', 'prev', 'd', 'u', 'w!']))
    return out


MANY_ARGS = ['p%d.txt' % i for i in range(1, 25)]


def ex_script(r):
    """Returns (lines: list of bytes lines without the tail, files: dict)."""
    files = {}
    f = file_text(r)
    if f is not None:
        files['f.txt'] = f
    g = file_text(r)
    files['g.txt'] = g if g is not None else b'second\nfile\n'
    nl = (f or b'').count(b'\n') + 1
    files['cmds.ex'] = '\n'.join(simple_cmd(r, nl, 1) for _ in range(r.range(1, 3))).encode('utf-8')
    lines = []
    if r.chance(1, 3):
        for _ in range(r.range(1, 4)):
            lines.append(simple_cmd_set(r))
    for _ in range(r.choice([1, 2, 3, 5, 8, 12, 20])):
        lines += ex_block(r, nl)
        if r.chance(1, 120):
            lines += many_buffers(r, nl)
    lines = [l if path_safe(l) else 'p' for l in lines]
    files['cmds.ex'] = '\n'.join(l if path_safe(l) else 'p' for l in files['cmds.ex'].decode('utf-8').split('\n')).encode('utf-8')
    return [l.encode('utf-8') for l in lines], files


def simple_cmd_set(r):
    o = r.choice(OPTIONS[:12])
    return 'se ' + o + '=' + str(r.choice(OPTVALS.get(o, [0, 1])))


def ex_bytes(lines):
    return b'\n'.join(lines) + b'\n' + EX_TAIL if lines else EX_TAIL


# ---------------------------------------------------------------------------------------------
# vi key streams: a list of atoms (bytes); shrinking removes atoms

def ctl(c):
    return bytes([ord(c) & 0x1f])


def count(r, small=False):
    t = r.below(12)
    if t < 7:
        return b''
    if t < 10 or small:
        return str(r.choice([1, 2, 3, 5, 9, 10, 25, 100, 300])).encode()
    return str(r.choice([999, 4097, 65536, 99999, 2147483647, 99999999999])).encode()


MOTIONS = [b'h', b'j', b'k', b'l', b'w', b'b', b'e', b'W', b'B', b'E', b'0', b'^', b'$', b'G', b'1G', b'{', b'}', b'[[', b']]', b'H', b'M', b'L',
           b'fa', b'Fa', b'tb', b'Tb', b'f\xc3\xa9', b'f\xd8\xa7', b';', b',', b'%', b'n', b'N', b'|', b'-', b'+', b'_', b' ', b'\x7f', b'\x08', b'\n',
           b"'a", b'`a', b"''", b'``', b"'[", b"`]", b"'z", ctl('a'), b'l', b'j', b'w', b'$']


def motion(r):
    t = r.below(14)
    if t == 0:
        return r.choice([b'/', b'?']) + safe_pat(r).encode('utf-8') + b'\n'
    if t == 1:
        return r.choice([b'f', b'F', b't', b'T']) + r.choice(['a', 'o', ' ', 'é', '中', 'ا', '́', 'x']).encode('utf-8')
    return r.choice(MOTIONS)


def typed(r):
    """Text typed in insert mode (bytes), may contain editing keys."""
    out = b''
    for _ in range(r.range(0, 4)):
        t = r.below(16)
        if t < 8:
            out += word(r).encode('utf-8') + (b' ' if r.chance(1, 2) else b'')
        elif t == 8:
            out += b'\n'
        elif t == 9:
            out += r.choice([b'\x08', b'\x7f', ctl('w'), ctl('u'), ctl('t'), ctl('d')])
        elif t == 10:
            out += ctl('v') + r.choice([b'a', b'\x1b', b'\t', b'\x01', b'\n', b'\xc3\xa9'])
        elif t == 11:
            out += ctl('k') + r.choice([b'e:', b'a*', b'12', b'zz', b'\x1bx'])
        elif t == 12:
            out += ctl('r') + r.choice([b'a', b'"', b'x', b'.', b':', b'\x1b'])
        elif t == 13:
            out += r.choice([ctl('f'), ctl('e'), ctl('p'), ctl('a'), b'\t'])
        elif t == 14:
            out += text_line(r, 6).encode('utf-8')[:300]
        else:
            out += r.choice(['السلام', '中文', 'é́', 'שלום abc']).encode('utf-8')
    return out


def vi_excmd(r, nlines):
    for _ in range(10):
        b = ex_block(r, nlines)
        s = '\n'.join(b)
        if len(b) == 1 and not s.startswith('so'):
            break
    else:
        b, s = ['p'], 'p'
    if not path_safe(b[0]):
        b, s = ['p'], 'p'
    if len(b) > 1:
        s += '\n'                       # the text block ends in '.', then back to vi
        return b':' + s.encode('utf-8')
    return b':' + s.encode('utf-8') + b'\n'


CLAMPING = (b'G', b'|', b'j', b'k', b'h', b'l', b'H', b'L', b'+', b'-', b'_', b'$', b'x', b'X', b'dd', b'yy', b'J', b'~', b'D', b'Y', b' ', b'\n')


def cap(cnt, cmd):
    """Counts of a million and more only where the work does not grow with the count (a motion such as
    2147483647{ loops that many times: linear time, not a hang)."""
    if cnt and int(cnt) >= 1000000 and cmd not in CLAMPING:
        return b'99999'
    return cnt


def vi_atom(r, nlines):
    t = r.below(64)
    if t < 16:
        m = motion(r)
        if m[:1] == b'0':                   # digits in front of 0 would make it part of a count (and of the next atom's count)
            return m
        return cap(count(r), m) + m
    if t < 24:
        op = r.choice([b'd', b'c', b'y', b'<', b'>', b'g~', b'gu', b'gU', b'd', b'y'])
        rg = (b'"' + r.choice([b'a', b'b', b'A', b'x', b'"', b'1', b'\xc3\xa9'])) if r.chance(1, 5) else b''
        k = r.below(5)
        if k == 0:
            tgt = op[-1:] if op[:1] != b'g' else op
        else:
            tgt = count(r, True) + motion(r)
        a = rg + count(r, True) + op + tgt
        if op == b'c':
            a += typed(r) + ESC
        return a
    if t < 26:
        return count(r, True) + b'!' + r.choice([b'!', b'}', b'j', b'G', b'w']) + shell(r, True).encode() + b'\n'
    if t < 34:
        return count(r, True) + r.choice([b'i', b'a', b'I', b'A', b'o', b'O']) + typed(r) + ESC
    if t < 40:
        m = r.choice([b'x', b'X', b'D', b'J', b'~', b'dd', b'yy', b'Y', b'x', b'dd'])
        return cap(count(r), m) + m
    if t < 42:
        return count(r, True) + r.choice([b'C', b's', b'S']) + typed(r) + ESC
    if t < 44:
        return count(r, True) + b'r' + r.choice(['a', ' ', '\n', 'é', '中', 'ا', '\x1b', '\t']).encode('utf-8')
    if t < 47:
        rg = (b'"' + r.choice([b'a', b'b', b'x', b'"', b'1', b'.', b':', b'/'])) if r.chance(1, 3) else b''
        return rg + count(r, True) + r.choice([b'p', b'P'])
    if t < 50:
        return r.choice([b'u', b'u', ctl('r'), b'.', b'.', count(r, True) + b'.'])
    if t < 52:
        return b'm' + r.choice([b'a', b'b', b'x', b'z', b'A', b'1'])
    if t < 54:
        return count(r, True) + r.choice([ctl('f'), ctl('b'), ctl('d'), ctl('u'), ctl('e'), ctl('y')])
    if t < 56:
        return count(r, True) + b'z' + r.choice([b'\n', b'.', b'-', b'>', b'<', b'e', b'f', b'j', b'k', b'J', b'K', b'D', b'x'])
    if t < 57:
        return r.choice([ctl('l'), ctl('g'), ctl('^'), b'ga', b'gf', b'gl', b'K', b'Q', b'#', b'*', b'&', b'=', b'v', b'V', b'R' + typed(r) + ESC, b'U', b'\\', b'\t'])
    if t < 59:
        return ctl('w') + r.choice([b's', b'j', b'k', b'o', b'c', b'x', b'z', b's'])
    if t < 61:
        # macros: put commands into a register and run them, with counts (fills the 4096-byte input queue)
        body = r.choice([b'x', b'ix\x1b', b'dw', b'j.', b'@a', b'.', b'A\xc3\xa9\x1b', b'3l', b'yyp'])
        cnt = r.choice([b'', b'3', b'50', b'999', b'5000'])
        if body == b'yyp' and len(cnt) > 2:     # a thousand new lines make every later :g quadratic (slow, not hung)
            cnt = b'50'
        return b'o' + body.replace(b'\x1b', ctl('v') + b'\x1b') + ESC + b'"add' + cnt + b'@a'
    if t < 62:
        return r.choice([b'"', b'd', b'c', b'y', b'g', b'z', b'm', b"'", b'f', b'r', b'!', ctl('w'), b'@', b'Z', b'"a', b'2d', b'd2']) + ESC
    return vi_excmd(r, nlines)


# the ':' prompt of vi() keeps its keymap from one prompt to the next: ^E (English keymap) in front of the quit command,
# or a ^F typed in an earlier prompt turns q into a Persian letter and the quit command is never given
VI_TAIL = ESC * 4 + b':\x05q!\n' + ESC + b':\x05q!\n'


# ---------------------------------------------------------------------------------------------
# insert-mode helpers after long words (round e: vi_help's char tag[128] was never reached -- ^A was only
# ever typed after words of a few bytes).  Aimed at the fixed stack buffers behind the keys of led_line():
#   ^A     vi_help(): the last word of the text before the cursor is copied into tag[128]; a second ^A inserts cmp[64]
#   ^T ^D  led_input()'s ai[128] (also filled from the indentation of the line that o / O / A work on)
#   ^R ^P  a register of any length is appended to the line;  ^K digraphs, ^V literal, ^E ^F keymap switch
#   : / ?  prompts with history (se hist): led_match() fills cmp[64] from the history on every key
# and at every other control key of led_line() (the rest of 1..31 is inserted or ignored), ^Z and NUL excepted.

WORD1 = ['a', 'b', 'x', 'e', 'k', '0', '9', '_', 'A']
WORD2 = ['é', 'ü', 'ß', 'ñ', 'я', 'ا', 'ل', 'ب', 'ש', 'ל', '\u0301', '\u0651']      # two bytes: Latin, Cyrillic, Arabic, Hebrew, combining marks
WORD3 = ['中', '文', 'あ', 'क', '€', 'Ａ', '\u200c', '\u200d']                        # three bytes: wide, Devanagari, zero-width
WORD4 = ['\U0001d11e', '\U0001f600', '\U00020000']                                   # four bytes
TAGLENS = [100, 120, 125, 126, 126, 127, 127, 127, 128, 128, 128, 129, 129, 130, 131, 135, 190, 253, 254, 255, 256, 257,
           380, 381, 382, 384, 507, 508, 509, 512, 600, 1000]
TAGCHARS = [100, 125, 126, 127, 127, 128, 128, 129, 130, 200, 300]


def long_word(r):
    """One word in the sense of uc_kind() (letters, digits, '_' and every non-ASCII character), its length aimed at a
    128-byte buffer: a byte length around 127, or a character count around 127 (then up to four times as many bytes),
    and multiples; one- to four-byte characters pure and mixed.  str."""
    cls = r.choice(['1', '2', '3', '4', '12', '13', '14', '23', '24', '34', '1234', '1234', 'rtl'])
    pools = {'1': WORD1, '2': WORD2, '3': WORD3, '4': WORD4}
    alphabet = ['ا', 'ل', 'ب', 'ש', 'م', 'ی'] if cls == 'rtl' else [c for k in cls for c in pools[k]]
    if r.chance(1, 3):
        alphabet = [r.choice(alphabet)]                     # one character repeated
    if r.chance(1, 3):
        return ''.join(r.choice(alphabet) for _ in range(r.choice(TAGCHARS)))
    target = r.choice(TAGLENS)
    out, nb = [], 0
    while nb < target:
        c = r.choice(alphabet)
        n = len(c.encode('utf-8'))
        if nb + n > target:
            c, n = r.choice(WORD1), 1
        out.append(c)
        nb += n
    return ''.join(out)


def long_indent(r):
    unit = r.choice([' ', '\t', ' \t', '  '])
    n = r.choice([100, 120, 125, 126, 127, 127, 128, 128, 129, 130, 135, 200, 300])
    return (unit * n)[:n]


OTHER_CTL = [c for c in range(1, 32) if c not in (3, 26, 27, 10, 13)]          # not ^C / ESC (they end the insert), not ^Z


def helper_keys(r):
    """Keys typed inside an insert or a prompt (bytes); none of them leaves it."""
    out = b''
    for _ in range(r.choice([1, 1, 1, 2, 2, 3, 5])):
        t = r.below(24)
        if t < 8:
            out += ctl('a')
        elif t < 10:
            out += ctl('a') + ctl('a')
        elif t == 10:
            out += ctl('k') + r.choice([b'e:', b'a*', b'12', b'zz', b'\x1bx', ctl('k'), b'o:', b'Eu', b'ss', ctl('a') + b'x', b'\xc3\xa9x'])
        elif t == 11:
            out += ctl('v') + r.choice([b'a', b'\x1b', b'\t', b'\x01', b'\n', b'\xc3\xa9', ctl('a'), ctl('k'), ctl('v')])
        elif t == 12:
            out += ctl('r') + r.choice([b'a', b'"', b'x', b'.', b':', b'\x1b', b'~', b'1', b'9', ctl('a'), b'\xc3\xa9'])
        elif t == 13:
            out += ctl('p')
        elif t == 14:
            out += r.choice([ctl('e'), ctl('f')])
        elif t == 15:
            out += r.choice([ctl('t'), ctl('d')]) * r.choice([1, 2, 3, 126, 127, 128, 130])
        elif t == 16:
            out += r.choice([ctl('w'), ctl('u'), b'\x08', b'\x7f']) * r.choice([1, 1, 2])
        elif t == 17:
            out += bytes([r.choice(OTHER_CTL)])
        elif t == 18:
            out += b'\n'
        elif t == 19:
            out += r.choice([b' ', b'.', b'(', b'-', b'\t', b', '])
        elif t == 20:
            out += long_word(r).encode('utf-8')
        else:
            out += word(r).encode('utf-8')
    return out.replace(b'!', b'').replace(b'/', b'')


def helper_text(r):
    """What is typed in front of the helper key: words and punctuation, then one long word, then nothing / a blank / punctuation."""
    pre = ''.join(r.choice([word(r) + ' ', r.choice(['(', ', ', '. ', '-', '+', ' ', '\t']), 'x ']) for _ in range(r.choice([0, 0, 1, 2])))
    post = r.choice(['', '', '', '', ' ', '.', ' x', '(', '\t'])
    return (pre + long_word(r) + post).replace('!', '').replace('/', '').encode('utf-8')


def helper_insert(r, nlines):
    t = r.below(10)
    if t < 6:           # the long word is typed
        entry = r.choice([b'i', b'a', b'A', b'I', b'o', b'O', b'cw', b'cc', b'S', b'C', b's', b'A', b'o'])
        keys = r.choice([b'', b'', b'', b'2', b'3']) + entry + helper_text(r) + helper_keys(r)
    elif t < 8:         # the long word (or the long indentation) is already on the line
        keys = str(r.range(1, max(1, nlines))).encode() + b'G' + r.choice([b'A', b'A', b'$a', b'ea', b'Ea', b'wi', b'o', b'O', b'I', b'cc']) + helper_keys(r)
    else:               # typed indentation, then lines under it
        keys = r.choice([b'o', b'O', b'A\n']) + long_indent(r).encode() + b'x' + helper_keys(r) + b'\n' + helper_keys(r)
    for _ in range(r.choice([0, 0, 1, 2])):
        keys += r.choice([b'', b' ', b'\n']) + (helper_text(r) if r.chance(1, 2) else word(r).encode('utf-8')) + helper_keys(r)
    return keys + ESC


def helper_prompt(r):
    """An ex / search / filter prompt (led_prompt, with history when the hist option is set) that is cancelled with ESC,
    or an :ec command (harmless to execute) that enters the history."""
    t = r.below(8)
    w = long_word(r).encode('utf-8')
    if t < 3:
        return b':ec ' + w[:r.choice([5, 60, 64, 70, 126, 300, 480, 500])].decode('utf-8', 'ignore').encode('utf-8') + helper_keys(r).replace(b'\n', b'') + b'\n'
    if t < 5:
        return b':ec ' + w[:r.choice([0, 1, 3, 8])].decode('utf-8', 'ignore').encode('utf-8') + helper_keys(r).replace(b'\n', b'') + ESC
    if t < 6:
        return r.choice([b'/', b'?']) + w[:r.choice([3, 64, 128, 300])].decode('utf-8', 'ignore').encode('utf-8') + helper_keys(r).replace(b'\n', b'') + ESC
    if t < 7:
        return b':' + helper_keys(r).replace(b'\n', b'') + ESC
    return r.choice([b'/', b'?']) + r.choice([b'a', b'x', '\u0627'.encode(), '\u4e2d'.encode()]) + ctl('a') + b'\n'


TILDE_HOOKS = ['rx ~ tr a-z A-Z', 'rx ~ cat', 'rx ~ sort', 'p', 'ec hook', 'rs ~', 'pu ~', 's-a-b-']


def helper_stream(r):
    """A vi key stream made of insert-mode helper keys after long words.  Returns (atoms, files, rows, cols)."""
    files = {}
    lines = []
    for _ in range(r.choice([0, 1, 2, 3, 5, 8])):
        t = r.below(6)
        if t < 2:
            lines.append(text_line(r, 6))
        elif t < 4:
            lines.append(helper_text(r).decode('utf-8'))
        elif t == 4:
            lines.append(long_indent(r) + word(r))
        else:
            lines.append(long_indent(r))
    if lines or r.chance(1, 2):
        files['f.txt'] = ('\n'.join(lines) + ('\n' if lines else '')).encode('utf-8')
    files['g.txt'] = b'second\nfile\n'
    if r.chance(1, 4):              # a tags file: vi_help looks the word up (no tag command is ever typed)
        tl = []
        for wd in ['a', 'x', 'foo', 'é', '中', 'a' * 127, 'a' * 126, 'é' * 63]:
            tl.append('%s\t%s\t/^%s/;" %s' % (wd, r.choice(['f.txt', 'n' * 200]), r.choice(['x', 'y' * 150]), r.choice(['info', 'i' * 140, 'é' * 70])))
        files['tags'] = ('\n'.join(sorted(tl)) + '\n').encode('utf-8')
    nl = max(1, len(lines))
    rows = r.choice([2, 2, 3, 4, 5, 10, 24, 24, 50])
    cols = r.choice([2, 3, 5, 8, 10, 20, 40, 80, 80, 200])
    atoms = []
    for _ in range(r.range(0, 3)):
        atoms.append(b':se ' + r.choice(['ai', 'noai', 'hist=%d' % r.choice([0, 1, 2, 50]), 'td=%d' % r.choice([-2, -1, 1, 2]), 'hl', 'nohl', 'order', 'shape', 'ai']).encode() + b'\n')
    if r.chance(1, 8):              # the \~ register: vi_help runs it as an ex command with the line in register ~
        atoms.append(b':rs \\~\n' + r.choice(TILDE_HOOKS).encode() + b'\n.\n')
    for _ in range(r.choice([1, 2, 3, 5, 8, 12])):
        t = r.below(20)
        if t < 12:
            atoms.append(helper_insert(r, nl))
        elif t < 15:
            atoms.append(helper_prompt(r))
        elif t < 16:
            atoms.append(r.choice([b'"ayy', b'yy', b'"ay$', b'"Ayy', b'dd', b'yw', b'"xyw']))
        elif t < 17:
            atoms.append(r.choice([b'.', b'u', ctl('r'), b'3.', b'u.']))
        else:
            atoms.append(vi_atom(r, nl))
        if sum(len(a) for a in atoms) > 1500:       # every key redraws the line: a few thousand keys on lines of a thousand bytes take seconds
            break
    return [a for a in atoms if a], files, rows, cols


# ---------------------------------------------------------------------------------------------
# :g / :v whose command replaces lines by MORE lines (round f: a global that marks freshly added lines never ends).
# Small buffers, because the command runs once per marked line and filters start a shell each time.  Shell commands:
# echo, cat, tr, sort (joined with ; or |) -- a filter gets the addressed lines as its input; without a range </dev/null.

GWORDS = ['x', 'y', 'a', 'b', 'é', '中', 'هدف', 'ab', 'x y']


def glob_filter(r):
    """A shell command that prints k >= 0 lines (usually more than it reads), the last / first / none of them from GWORDS."""
    t = r.below(12)
    ws = [r.choice(GWORDS) for _ in range(r.choice([1, 2, 2, 3, 4]))]
    if t < 5:
        return '; '.join('echo ' + w for w in ws)
    if t < 7:
        return 'cat; ' + '; '.join('echo ' + w for w in ws[:2])
    if t < 8:
        return '; '.join('echo ' + w for w in ws[:2]) + '; cat'
    if t < 9:
        return r.choice(['tr a-z A-Z', 'tr x y', 'sort', 'sort -r', 'cat']) + '; echo ' + ws[0]
    if t < 10:
        return 'cat; cat f.txt'
    if t < 11:
        return '(' + '; '.join('echo ' + w for w in ws) + ') | ' + r.choice(['sort', 'sort -r', 'tr a-z A-Z', 'cat'])
    return r.choice(['cat', 'sort', 'tr a-z A-Z', 'true', 'echo x'])


def glob_body(r, depth=0):
    t = r.below(20)
    rng = r.choice(['.', '.', '.', '.,+1', '.-1,.', '.,.+2', '', '1', '$', '.,$'])
    if t < 10:
        return (rng or '.') + '!' + glob_filter(r)
    if t < 12:
        return 's/' + r.choice(['x', 'a', 'é', '$', '^']) + '/' + r.choice(['y', 'x', '&&']) + '/|' + (rng or '.') + '!' + glob_filter(r)
    if t < 13:
        return rng + 'r !(' + glob_filter(r) + ') </dev/null'
    if t < 14:
        return rng + r.choice(['pu', 'pu a', 'y a', 'd', 'd a', 'k a', 'p'])
    if t < 15 and depth == 0:
        return rng + r.choice(['g', 'v']) + '/' + r.choice(GWORDS) + '/' + (glob_body(r, 1) or 'p')
    if t < 16:
        return rng + r.choice(['w !cat', 'w !sort', '='])
    return None                     # the change command with a text block (the caller adds the block)


def glob_script(r):
    """An ex script around :g / :v commands that turn one line into several.  Returns (lines, files)."""
    n = r.choice([1, 2, 2, 3, 4, 5, 6, 8, 12])
    flines = []
    for _ in range(n):
        t = r.below(8)
        flines.append(r.choice(GWORDS) if t < 5 else (r.choice(GWORDS) + ' ' + r.choice(GWORDS) if t < 7 else ''))
    files = {'f.txt': ('\n'.join(flines) + '\n').encode('utf-8'), 'g.txt': b'second\nfile\n', 'cmds.ex': b'p\n'}
    out = []
    if not r.chance(1, 6):
        out.append(r.choice(['se wa', 'se wa', 'se writeany']))
    for _ in range(r.choice([1, 1, 2, 3])):
        a = r.choice(['', '', '%', '1,$', '2,$', '1,%d' % r.range(1, n), '%d,%d' % (r.range(1, n), r.range(1, n)), '.,$', '2,4', "'a,$", '1;+1'])
        g = r.choice(['g', 'g', 'g', 'v', 'g!', 'global'])
        pat = r.choice(GWORDS + ['.', '^', '$', '[xy]', 'x|y', '^x', 'a$', 'x*y', '[^x]'])
        body = glob_body(r)
        if body is None:
            rng = r.choice(['', '', '.', '.,+1', '.-1,.'])
            out.append(a + g + '/' + pat + '/' + rng + r.choice(['c', 'c', 'change']))
            out += [r.choice(GWORDS) for _ in range(r.choice([0, 1, 2, 2, 3, 4]))] + ['.']
            for _ in range(r.choice([0, 2, 6])):                  # further blocks for the next matching lines
                out += [r.choice(GWORDS) for _ in range(r.choice([0, 2, 3]))] + ['.']
        else:
            out.append(a + g + '/' + pat + '/' + body)
        k = r.below(8)
        if k == 0:
            out.append(r.choice(['u', 'u', 'redo', '%p', '1ka', 'w', 'w out.txt', '%y a', 'e!']))
        elif k == 1:
            out.append(simple_cmd(r, n, 1))
    out = [l if path_safe(l) else 'p' for l in out]
    return [l.encode('utf-8') for l in out], files


# ---------------------------------------------------------------------------------------------
# substitutions whose replacement refers to capture groups that sit in ABANDONED parts of the pattern: a group in an
# alternative that is tried and given up, under ? / * / {m,n} when that part does not take part in the match (or takes part
# in an earlier round only), nested groups -- with lines on which the abandoned branch gets into (and past) the group before it
# fails.  What the matcher reports for such a group (unset, or the offsets of its last completed round) is what replace() in
# ex.c turns into a pointer and a length for memcpy.
# A pattern is a small tree so that matching lines can be drawn from it:
#   ('lit', text) ('cls', pattern text, members) ('grp', alt) ('alt', [seq...]) ('seq', [piece...]) ('rep', node, suffix, lo, hi)
# A loop (* + {m,n}) is only put on a node that cannot match the empty string (KF-EMPTY-LOOP is replayed separately).

G_LITS = ['a', 'b', 'c', 'x', 'y', 'a', 'b', 'ab', 'é', '中']
G_CLASSES = [('.', 'abcxy'), ('[ab]', 'ab'), ('[^a]', 'bcxy'), ('[a-c]', 'abc'), ('[[:alpha:]]', 'abxy')]
G_ALPHA = ['a', 'b', 'c', 'x', 'y', 'a', 'b', 'é', '中', ' ']


def g_atom(r, st, depth):
    """(node, nullable, loopy): loopy = contains * + or {m,n}; a loop is never put on a loopy node (star height 1: the time a
    failing match takes stays polynomial in the length of the line)."""
    t = r.below(10)
    if t < 4 or st['n'] >= st['max'] or depth >= 3:
        if r.chance(1, 5):
            p, mem = r.choice(G_CLASSES)
            return ('cls', p, mem), False, False
        return ('lit', r.choice(G_LITS)), False, False
    st['n'] += 1
    body, nl, lp = g_alt(r, st, depth + 1)
    return ('grp', body), nl, lp


def g_piece(r, st, depth):
    a, nl, lp = g_atom(r, st, depth)
    t = r.below(12)
    if t < 5:
        return a, nl, lp
    if t < 8 or nl or lp:
        return ('rep', a, '?', 0, 1), True, lp
    suf, lo, hi = r.choice([('*', 0, 3), ('*', 0, 3), ('+', 1, 3), ('{1,2}', 1, 2), ('{0,2}', 0, 2), ('{2}', 2, 2)])
    return ('rep', a, suf, lo, hi), lo == 0, True


def g_seq(r, st, depth):
    ps = [g_piece(r, st, depth) for _ in range(r.choice([1, 1, 2, 2, 3] if depth == 0 else [1, 1, 1, 2, 2, 3]))]
    return ('seq', [p[0] for p in ps]), all(p[1] for p in ps), any(p[2] for p in ps)


def g_alt(r, st, depth):
    ss = [g_seq(r, st, depth) for _ in range(r.choice([1, 2, 2, 2, 3] if depth == 0 else [1, 1, 2, 2, 3]))]
    return ('alt', [x[0] for x in ss]), any(x[1] for x in ss), any(x[2] for x in ss)


def g_text(n):
    k = n[0]
    if k == 'lit':
        return n[1]
    if k == 'cls':
        return n[1]
    if k == 'grp':
        return '(' + g_text(n[1]) + ')'
    if k == 'alt':
        return '|'.join(g_text(x) for x in n[1])
    if k == 'seq':
        return ''.join(g_text(x) for x in n[1])
    return g_text(n[1]) + n[2]


def g_sample(r, n):
    """A string the node matches (one random way through it)."""
    k = n[0]
    if k == 'lit':
        return n[1]
    if k == 'cls':
        return r.choice(list(n[2]))
    if k == 'grp':
        return g_sample(r, n[1])
    if k == 'alt':
        return g_sample(r, r.choice(n[1]))
    if k == 'seq':
        return ''.join(g_sample(r, x) for x in n[1])
    return ''.join(g_sample(r, n[1]) for _ in range(r.range(n[3], n[4])))


def g_groups(n):
    k = n[0]
    if k in ('lit', 'cls'):
        return 0
    if k == 'grp':
        return 1 + g_groups(n[1])
    if k in ('alt', 'seq'):
        return sum(g_groups(x) for x in n[1])
    return g_groups(n[1])


def g_pattern(r):
    """A pattern tree with 1..4 groups, at least one of them inside an alternation or under ? / * / {0,n}."""
    for _ in range(50):
        st = {'n': 0, 'max': r.choice([1, 2, 2, 3, 4])}
        t = r.below(6)
        if t == 0:              # (A)|B, B|(A), (A)|(B)|C: a group is a whole alternative
            alts = []
            for _ in range(r.choice([2, 2, 3])):
                s = g_seq(r, st, 1)[0]
                if r.chance(2, 3) and st['n'] < st['max']:
                    st['n'] += 1
                    s = ('seq', [('grp', ('alt', [s]))])
                alts.append(s)
            n = ('alt', alts)
        elif t == 1:            # X(A)?Y: an optional group between two mandatory parts
            st['n'] += 1
            g = g_alt(r, st, 1)[0]
            n = ('alt', [('seq', [g_seq(r, st, 1)[0], ('rep', ('grp', g), '?', 0, 1), g_seq(r, st, 1)[0]])])
        elif t == 2:            # ((A)|B)*C: a repeated group whose inner group takes part in some rounds only
            st['n'] += 1
            g, nl, lp = g_alt(r, st, 1)
            if nl or lp:
                continue
            suf, lo, hi = r.choice([('*', 0, 3), ('+', 1, 3), ('{1,2}', 1, 2), ('{0,2}', 0, 2)])
            n = ('alt', [('seq', [('rep', ('grp', g), suf, lo, hi), g_seq(r, st, 1)[0]])])
        else:
            n = g_alt(r, st, 0)[0]
        txt = g_text(n)
        if 1 <= g_groups(n) <= 4 and ('|' in txt or '?' in txt or '*' in txt or '{0' in txt) and len(txt) <= 60:
            return n
    return ('alt', [('seq', [('grp', ('alt', [('seq', [('lit', 'a')])]))]), ('seq', [('lit', 'b')])])


def g_mutate(r, s):
    """Change a sampled match a little, so that a branch gets some way (into or past a group) and then fails."""
    cs = list(s)
    t = r.below(8)
    if not cs or t == 0:
        return s + r.choice(G_ALPHA)
    i = r.below(len(cs))
    if t < 4:
        cs[i] = r.choice(G_ALPHA)
    elif t < 6:
        del cs[i]
    elif t < 7:
        cs.insert(i, r.choice(G_ALPHA))
    else:
        cs = cs[:i]
    return ''.join(cs)


def g_repl(r, ng):
    """Replacement text that refers to groups: usually to every group of the pattern and the first one beyond."""
    t = r.below(10)
    if t < 5:
        return r.choice(['<', '[', '{', '']) + ''.join('\\%d%s' % (k, r.choice(['', '', '|', '-'])) for k in range(1, min(ng + 1, 9) + 1)) + r.choice(['>', ']', ''])
    if t < 7:
        ks = list(range(ng, 0, -1))
        return ''.join('\\%d' % k for k in ks) + r.choice(['', '&', '\\0'])
    if t < 8:
        return '\\%d' % r.range(1, 9)
    items = []
    for _ in range(r.range(1, 5)):
        k = r.below(8)
        items.append('\\%d' % r.range(1, max(1, ng)) if k < 4 else ('\\%d' % r.range(ng + 1, 9) if k < 5 and ng < 9 else r.choice(['&', '\\0', 'X', 'é', '-', '\\\\'])))
    return ''.join(items)


def group_lines(r, tree, n):
    out = []
    for _ in range(n):
        t = r.below(10)
        pre = r.choice(['', '', 'x', 'y', 'é', 'ab'])
        post = r.choice(['', '', 'y', 'c', '中'])
        if t < 3:
            out.append(pre + g_sample(r, tree) + post)
        elif t < 8:
            out.append(pre + g_mutate(r, g_sample(r, tree)) + post)
        elif t < 9:
            out.append(g_mutate(r, g_sample(r, tree)) + ' ' + g_mutate(r, g_sample(r, tree)))
        else:
            out.append(''.join(r.choice(G_ALPHA) for _ in range(r.range(0, 8))))
    return out


def group_script(r):
    """An ex script of substitutions whose replacements refer to groups of abandoned pattern parts.  Returns (lines, files)."""
    trees = [g_pattern(r) for _ in range(r.choice([1, 2, 3, 4]))]
    flines = []
    for t in trees:
        flines += group_lines(r, t, r.choice([2, 3, 4, 6]))
    r.shuffle(flines)
    flines = [l.replace('/', '').replace('!', '')[:24] for l in flines][:16]
    files = {'f.txt': ('\n'.join(flines) + '\n').encode('utf-8'), 'g.txt': b'second\nfile\n', 'cmds.ex': b'p\n'}
    out = []
    for t in trees:
        pat, ng = g_text(t), g_groups(t)
        for _ in range(r.choice([1, 2, 2, 3])):
            rp = g_repl(r, ng)
            a = r.choice(['%', '%', '%', '1,$', '', '1', '$', '2,3'])
            k = r.below(10)
            if k < 6:
                out.append(a + 's/' + pat + '/' + rp + '/' + r.choice(['', '', 'g', 'g']))
            elif k < 8:
                out.append(r.choice(['g', 'g', 'v']) + '/' + r.choice(['a', 'b', 'x', '.', pat]) + '/s/' + pat + '/' + rp + '/')
            elif k < 9:
                out += ['%s/' + pat + '/' + rp + '/', '%&&', '%s//' + g_repl(r, ng) + '/g']
            else:
                out += ['se ic', a + 's/' + pat + '/' + rp + '/g', 'se noic']
            if r.chance(1, 2):
                out.append(r.choice(['u', 'u', 'u', '%p', 'redo']))
    return [l.encode('utf-8') for l in out], files


GROUP_SHAPES = ['(A)|B', 'B|(A)', '(A)|(B)', '(A)|(B)|C', 'X(A)?B', 'X(A)?(B)?C', 'X(A)*B', '((A)|B)*C', '((A)|B)+C', '(X(A)?)*C', '((A)(B)?)|C',
                '(A|(B))+C', '((A)|(B))*C', '(A(B)?)?C', 'X((A)|B)?C', '(((A)|B)|C)*X', '((A)|(B)|(C))+X', '(A)?(B)?(C)?(X)?Y']


def group_sweep():
    """The smallest patterns of every shape the stream draws from (letters A B C X stand for one-character literals), each with a
    replacement that refers to every group and the first number beyond, on every line of up to four characters over the
    pattern's letters plus one foreign letter: deterministic, run on every seed.  Returns a list of (lines, files)."""
    import itertools
    cases = []
    for shape in GROUP_SHAPES:
        pat = shape.replace('A', 'a').replace('B', 'b').replace('C', 'c').replace('X', 'x').replace('Y', 'y')
        ng = pat.count('(')
        letters = sorted(set(ch for ch in pat if ch.isalpha())) + ['z']
        flines = [''.join(t) for n in range(1, 5) for t in itertools.product(letters, repeat=n)]
        rp = '<' + '|'.join('\\%d' % k for k in range(1, min(ng + 1, 9) + 1)) + '>'
        for i in range(0, len(flines), 400):
            files = {'f.txt': ('\n'.join(flines[i:i + 400]) + '\n').encode('utf-8'), 'g.txt': b'second\nfile\n', 'cmds.ex': b'p\n'}
            cases.append(([('%s/' + pat + '/' + rp + '/').encode(), b'u', ('%s/' + pat + '/' + rp + '/g').encode()], files))
    return cases


def vi_stream(r):
    """Returns (atoms, files, rows, cols)."""
    files = {}
    f = file_text(r)
    if f is not None:
        files['f.txt'] = f
    files['g.txt'] = b'second\nfile\n'
    nl = (f or b'').count(b'\n') + 1
    rows = r.choice([2, 2, 3, 4, 5, 10, 24, 24, 50])
    cols = r.choice([2, 3, 5, 8, 10, 20, 40, 80, 80, 200])
    atoms = []
    if r.chance(1, 2):
        for _ in range(r.range(1, 3)):
            atoms.append(b':' + simple_cmd_set(r).encode() + b'\n')
    for _ in range(r.choice([1, 2, 4, 8, 12, 20, 30])):
        atoms.append(vi_atom(r, nl))
        if r.chance(1, 100):
            for l in many_buffers(r, nl):
                if l in ('a',):
                    atoms.append(b'ix' + ESC)
                elif l != '.' and path_safe(l) and not l.startswith('so') and '!' not in l.replace('e!', '').replace('w!', '').replace('b!', '').replace('b !', '').replace('ew!', '').replace('edit!', ''):
                    atoms.append(b':' + l.encode('utf-8') + b'\n')
    return atoms, files, rows, cols


def vi_bytes(atoms):
    b = b''.join(atoms) + VI_TAIL
    return b.replace(b'\x1a', b'').replace(b'\x00', b'')
