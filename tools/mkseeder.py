#!/usr/bin/env python3
"""mkseeder.py <property id> <tag>

Prepares the workspace of a fresh "seeder" sub-agent (an agent that sees only the text of one
property and a scratch git worktree of /repo, nothing of /verif) and prints the prompt to give it.

  /tmp/seedwt/<id><tag>/repo      git worktree of /repo HEAD (detached)
  /tmp/seedwt/<id><tag>/PROPERTY.txt
  /tmp/seedwt/<id><tag>/run_tests.sh   the 60 tests on a copy, serialised by a lock
  /tmp/seedwt/<id><tag>/out/1, out/2   where the agent leaves patch.diff, demo.sh, README

Remove afterwards with:  git -C /repo worktree remove --force /tmp/seedwt/<id><tag>/repo; rm -rf /tmp/seedwt/<id><tag>
"""
import json, os, subprocess, sys, shutil

V = os.path.dirname(os.path.dirname(os.path.abspath(__file__)))

RUN_TESTS = r'''#!/bin/sh
# usage: run_tests.sh <repo-dir>   builds a private copy and runs the 60 tests; exit 0 iff all pass.
# (the suite uses fixed file names under /tmp, so runs are serialised by a lock)
REPO=${1:-.}
D=$(mktemp -d /var/tmp/nvbase.XXXXXX) || exit 2
trap 'rm -rf "$D"' EXIT
( cd "$REPO" && tar --exclude=.git --exclude='*.o' --exclude=./vi -cf - . ) | tar -xf - -C "$D"
cd "$D" || exit 2
make -s clean >/dev/null 2>&1
make -s -j8 vi >/dev/null 2>"$D/.build.err" || { cat "$D/.build.err"; echo "BUILD FAILED"; exit 2; }
exec 9>/var/tmp/nvbase.lock
flock 9
timeout -k 5 180 sh test.sh > "$D/.out" 2>&1
rc=$?
ok=$(grep -c ': OK$' "$D/.out")
echo "tests OK: $ok  rc=$rc"
[ $rc -eq 0 ] && [ "$ok" -eq 60 ] || { tail -20 "$D/.out"; exit 1; }
exit 0
'''

PROMPT = '''You are helping to evaluate a verification effort for the small vi/ex editor "neatvi" (C, ~8 kLOC).
Your job is to play the role of a developer who introduces a realistic, subtle REGRESSION.

Workspace (work ONLY here; never touch /repo or /verif, never read anything under /verif):
  {ws}/repo          a scratch git worktree of the editor's source (build with `make -j8 vi` inside it; binary ./vi;
                     `./vi -s -e file` = ex mode reading commands from stdin, `./vi -v file` = visual mode reading keys from stdin;
                     set EXINIT="" in the environment; look at test.sh and test/*.sh to see how the editor is scripted)
  {ws}/PROPERTY.txt  the semantic property you must break (read it carefully, and read the code it is anchored in)
  {ws}/run_tests.sh  `sh {ws}/run_tests.sh {ws}/repo` builds a private copy and runs the project's 60 tests (exit 0 iff all pass).
                     Do NOT run test.sh directly (it uses fixed names under /tmp and other people run it concurrently).
  {ws}/out/1 and {ws}/out/2   where you leave your two results

Task: produce TWO different changes to the editor's source (different root causes, preferably different functions/files), each of which
  (a) BREAKS the property in PROPERTY.txt (really breaks what the statement says, for inputs inside its quantifier),
  (b) still compiles without new warnings and still passes all 60 existing tests (check with run_tests.sh),
  (c) looks like something a maintainer could plausibly commit (a refactoring slip, an "optimisation", an off-by-one at a boundary,
      a dropped bookkeeping line, a swapped branch, a wrong constant, a cache that is not invalidated ...), and
  (d) needs something SPECIFIC to manifest -- a particular multi-step sequence of operations, an unusual input (size at a buffer
      boundary, multi-byte character at a particular place, empty line/buffer, last line without newline ...), a fault at a particular
      point, or two cooperating sites that each look fine alone.  NOT something that ordinary use exposes at once.
For each change write, in {ws}/out/<n>/ :
  patch.diff   `git -C {ws}/repo diff` of that change alone against the worktree's HEAD (the two patches must apply independently)
  demo.sh      a POSIX shell script, usage `sh demo.sh <repo-dir>` where <repo-dir>/vi is an already built binary; it must exit 0 and
               print ok-lines on the UNCHANGED source and exit 1 (printing what differs) on the source with your patch.  Use mktemp -d
               for its files, `export EXINIT=""`, a `timeout 10` around every editor run, and never send ^Z to the editor.
               If the demonstration needs a fault (e.g. a failing write) it may build a small LD_PRELOAD shim with cc.
  README       what the change is, why it breaks the property, and exactly what is needed for it to manifest.
Verify everything yourself before you finish: build HEAD -> demo passes; apply patch -> builds, run_tests.sh passes, demo fails.
Reset the worktree (`git -C {ws}/repo checkout -- .`) between the two changes and at the end.  Do not commit anything.
Finish by replying with a short summary of the two changes (files/functions touched, what is needed to manifest).
'''


def main():
    pid, tag = sys.argv[1], sys.argv[2]
    ws = '/tmp/seedwt/%s%s' % (pid, tag)
    if os.path.exists(ws):
        subprocess.run(['git', '-C', '/repo', 'worktree', 'remove', '--force', ws + '/repo'])
        shutil.rmtree(ws, ignore_errors=True)
    os.makedirs(ws + '/out/1')
    os.makedirs(ws + '/out/2')
    subprocess.run(['git', '-C', '/repo', 'worktree', 'add', '--detach', ws + '/repo', 'HEAD'], check=True,
                   stdout=subprocess.DEVNULL, stderr=subprocess.DEVNULL)
    prop = None
    for l in open(os.path.join(V, 'properties.jsonl')):
        p = json.loads(l)
        if p['id'] == pid:
            prop = p
    with open(ws + '/PROPERTY.txt', 'w') as f:
        f.write('Property %s: %s\n\nStatement:\n%s\n\nQuantifier (what it must hold for):\n%s\n\nWhy the existing tests cannot settle it:\n%s\n\nWhere it lives in the code:\n%s\n'
                % (pid, prop['title'], prop['statement'], prop.get('quantifier', ''), prop.get('why_tests_cant', ''),
                   json.dumps(prop.get('anchors', {}), indent=1)))
    with open(ws + '/run_tests.sh', 'w') as f:
        f.write(RUN_TESTS)
    tried = []
    sd = os.path.join(V, 'seeded')
    for d in sorted(os.listdir(sd)):
        if d.startswith(pid) and os.path.exists(os.path.join(sd, d, 'README')):
            head = [l.strip() for l in open(os.path.join(sd, d, 'README')).read().split('\n') if l.strip() and not set(l.strip()) <= set('=-')]
            tried.append('  - ' + ' '.join(head[:2])[:220])
    extra = ''
    if tried:
        extra = '\nIdeas that were already used by earlier rounds (do something DIFFERENT in kind and place):\n' + '\n'.join(tried) + '\n'
    print(PROMPT.format(ws=ws) + extra)


if __name__ == '__main__':
    main()
